"""Running Kani harnesses on /repo's current tree and parsing CBMC's verdicts.

One job = one (configuration, harness).  A job is a `cargo kani` invocation on
/repo/crates/sas-lexer itself, in a private target directory (slot), under a memory limit
and a timeout.  Nothing here samples or enumerates: the verdict is CBMC's.
"""
import fcntl
import hashlib
import json
import os
import re
import shutil
import subprocess
import threading
import time

REPO = os.environ.get("VERIF_REPO", "/repo")
CRATE = os.path.join(REPO, "crates", "sas-lexer")
VERIF = os.environ.get("VERIF_DIR", os.path.dirname(os.path.dirname(os.path.abspath(__file__))))
TARGET_ROOT = os.environ.get("VERIF_TARGET_ROOT", os.path.join(VERIF, ".kani-target"))
LOG_ROOT = os.path.join(VERIF, ".logs")
CACHE_FILE = os.path.join(VERIF, ".cache", "verdicts.json")

CONFIGS = {
    # what the test-suite runs: debug assertions + overflow checks
    "debug": {"env": {}, "args": []},
    # release-like: cfg(debug_assertions) off (release branch of advance_by, no prev_char, no detector)
    "nodebug": {"env": {"CARGO_PROFILE_DEV_DEBUG_ASSERTIONS": "false"}, "args": []},
    "macro_sep": {"env": {}, "args": ["--features", "macro_sep"]},
}

_cache_lock = threading.Lock()


def base_env(cfg):
    env = dict(os.environ)
    env["SAS_LEXER_VERIF_DIR"] = VERIF
    env["CARGO_NET_OFFLINE"] = "true"
    env.pop("RUSTUP_TOOLCHAIN", None)
    env.update(CONFIGS[cfg]["env"])
    return env


class Slot:
    """A private cargo target directory, locked across processes with flock."""

    def __init__(self, cfg):
        self.cfg = cfg
        self.fd = None
        self.path = None

    def __enter__(self):
        os.makedirs(TARGET_ROOT, exist_ok=True)
        i = 0
        while True:
            for i in range(0, 24):
                path = os.path.join(TARGET_ROOT, f"{self.cfg}-{i}")
                os.makedirs(path, exist_ok=True)
                fd = os.open(os.path.join(path, ".slot.lock"), os.O_CREAT | os.O_RDWR)
                try:
                    fcntl.flock(fd, fcntl.LOCK_EX | fcntl.LOCK_NB)
                except OSError:
                    os.close(fd)
                    continue
                self.fd, self.path = fd, path
                return self
            time.sleep(1.0)

    def __exit__(self, *a):
        # drop per-harness build output so that slots do not grow without bound
        try:
            for root in _glob_build_dirs(self.path):
                shutil.rmtree(root, ignore_errors=True)
        finally:
            fcntl.flock(self.fd, fcntl.LOCK_UN)
            os.close(self.fd)


def _glob_build_dirs(slot_path):
    base = os.path.join(slot_path, "kani")
    out = []
    if not os.path.isdir(base):
        return out
    for triple in os.listdir(base):
        b = os.path.join(base, triple, "debug", "build", "sas-lexer")
        if os.path.isdir(b):
            for d in os.listdir(b):
                out.append(os.path.join(b, d))
    return out


RE_RESULT = re.compile(r"\*\* (\d+) of (\d+) failed(?: \((.*?)\))?")
RE_COVER = re.compile(r"\*\* (\d+) of (\d+) cover properties satisfied")
RE_FAILED = re.compile(r'^Failed Checks: (.*)$')
RE_FILE = re.compile(r'^\s*File: "([^"]*)", line (\d+), in (.*)$')
RE_VTIME = re.compile(r"Verification Time: ([0-9.]+)s")


def parse_output(text):
    """Parse `cargo kani --output-format terse` output for ONE harness."""
    res = {
        "status": "error",
        "checks_total": 0,
        "checks_failed": 0,
        "failed_checks": [],
        "covers_sat": 0,
        "covers_total": 0,
        "verification_time_s": None,
    }
    # only Kani's own report counts (the compiler warnings before it quote source lines of the harness files)
    k = text.rfind("Checking harness ")
    if k >= 0:
        text = text[k:]
    lines = text.splitlines()
    for i, ln in enumerate(lines):
        m = RE_RESULT.search(ln)
        if m:
            res["checks_failed"] = int(m.group(1))
            res["checks_total"] = int(m.group(2))
        m = RE_COVER.search(ln)
        if m:
            res["covers_sat"] = int(m.group(1))
            res["covers_total"] = int(m.group(2))
        m = RE_FAILED.match(ln)
        if m:
            desc = m.group(1).strip()
            if desc.startswith('"') and desc.endswith('"'):
                desc = desc[1:-1]
            loc = None
            if i + 1 < len(lines):
                m2 = RE_FILE.match(lines[i + 1])
                if m2:
                    loc = {"file": m2.group(1), "line": int(m2.group(2)), "fn": m2.group(3)}
            res["failed_checks"].append({"desc": desc, "loc": loc})
        m = RE_VTIME.search(ln)
        if m:
            res["verification_time_s"] = float(m.group(1))
    if "VERIFICATION:- SUCCESSFUL" in text:
        res["status"] = "pass"
    elif "VERIFICATION:- FAILED" in text:
        res["status"] = "fail"
        if "Status: ERROR" in text or "CBMC failed" in text or "out of memory" in text.lower():
            res["status"] = "error"
        elif not res["failed_checks"]:
            # FAILED without a single failed check: the back end died (memory, signal) after printing
            # partial results. Never a verdict.
            res["status"] = "error"
    if re.search(r"error(\[E\d+\])?: ", text) and "VERIFICATION:-" not in text:
        res["status"] = "build_error"
    return res


def is_unwind_failure(fc):
    return "unwinding assertion" in fc["desc"]


def goto_hash(slot_path, harness):
    """sha256 over the goto binaries codegen produced for `harness` in this slot."""
    h = hashlib.sha256()
    found = False
    for d in sorted(_glob_build_dirs(slot_path)):
        outd = os.path.join(d, "out")
        if not os.path.isdir(outd):
            continue
        for f in sorted(os.listdir(outd)):
            if f.endswith(".symtab.out") and f.rsplit(".symtab.out", 1)[0].endswith(harness):
                with open(os.path.join(outd, f), "rb") as fh:
                    h.update(fh.read())
                found = True
    return h.hexdigest() if found else None


def _load_cache():
    try:
        with open(CACHE_FILE) as f:
            return json.load(f)
    except Exception:
        return {}


def _store_cache(key, value):
    with _cache_lock:
        os.makedirs(os.path.dirname(CACHE_FILE), exist_ok=True)
        lockfd = os.open(CACHE_FILE + ".lock", os.O_CREAT | os.O_RDWR)
        try:
            fcntl.flock(lockfd, fcntl.LOCK_EX)
            c = _load_cache()
            c[key] = value
            tmp = CACHE_FILE + ".tmp"
            with open(tmp, "w") as f:
                json.dump(c, f)
            os.replace(tmp, CACHE_FILE)
        finally:
            fcntl.flock(lockfd, fcntl.LOCK_UN)
            os.close(lockfd)


def run_harness(h, cfg, timeout_s, mem_gb, use_cache=True, extra_args=None, log_tag=""):
    """Run one harness in one configuration. Returns a result dict."""
    os.makedirs(LOG_ROOT, exist_ok=True)
    name = h["name"]
    t0 = time.time()
    with Slot(cfg) as slot:
        env = base_env(cfg)
        common = [
            "cargo", "kani", "--output-format", "terse", "--target-dir", slot.path,
            "-Z", "stubbing", "--harness", h["full"], "--exact", "--no-assertion-reach-checks",
        ] + CONFIGS[cfg]["args"] + (extra_args or [])
        # 1. regenerate the encoding (goto binary) from the current tree
        cg = subprocess.run(common + ["--only-codegen"], cwd=CRATE, env=env, capture_output=True, text=True)
        enc = goto_hash(slot.path, name) if cg.returncode == 0 else None
        key = None
        if enc is not None:
            key = hashlib.sha256((enc + "|" + cfg + "|" + " ".join(extra_args or [])).encode()).hexdigest()
            if use_cache:
                c = _load_cache().get(key)
                if c is not None and c.get("status") in ("pass", "fail"):
                    r = dict(c)
                    r.update({"name": name, "cfg": cfg, "reused": True, "wall_s": time.time() - t0, "encoding": enc})
                    return r
        if cg.returncode != 0:
            r = parse_output(cg.stdout + cg.stderr)
            r.update({"name": name, "cfg": cfg, "status": "build_error", "reused": False,
                      "wall_s": time.time() - t0, "encoding": None,
                      "log_tail": (cg.stdout + cg.stderr)[-3000:]})
            return r
        # 2. decide it
        logf = os.path.join(LOG_ROOT, f"{name}.{cfg}{log_tag}.log")
        cmd = "ulimit -v %d; exec timeout -k 10 %d %s" % (
            int(mem_gb * 1024 * 1024), int(timeout_s), " ".join(_shq(a) for a in common))
        with open(logf, "w") as lf:
            p = subprocess.run(["bash", "-c", cmd], cwd=CRATE, env=env, stdout=lf, stderr=subprocess.STDOUT)
        with open(logf, errors="replace") as lf:
            text = lf.read()
        r = parse_output(text)
        if p.returncode in (124, 137):
            r["status"] = "timeout"
        elif r["status"] == "error":
            k = text.rfind("Checking harness ")
            low = (text[k:] if k >= 0 else text).lower()
            if "out of memory" in low or "bad_alloc" in low or "cannot allocate" in low or "memory exhausted" in low:
                r["status"] = "oom"
        r.update({"name": name, "cfg": cfg, "reused": False, "wall_s": time.time() - t0,
                  "encoding": enc, "log": logf})
        if r["status"] not in ("pass", "fail"):
            r["log_tail"] = text[-2500:]
        if key is not None and r["status"] in ("pass", "fail"):
            _store_cache(key, {k: r[k] for k in ("status", "checks_total", "checks_failed", "failed_checks",
                                                 "covers_sat", "covers_total", "verification_time_s")})
        return r


def _shq(s):
    if re.fullmatch(r"[A-Za-z0-9_./:=,+-]+", s):
        return s
    return "'" + s.replace("'", "'\\''") + "'"


def concrete_playback(h, cfg, timeout_s, mem_gb):
    """Re-run a failing harness with concrete playback and return the printed concrete values
    (list of byte lists) of the first generated test, or None."""
    name = h["name"]
    with Slot(cfg) as slot:
        env = base_env(cfg)
        common = [
            "cargo", "kani", "--output-format", "terse", "--target-dir", slot.path,
            "-Z", "stubbing", "--harness", h["full"], "--exact", "--no-assertion-reach-checks", "-Z", "concrete-playback",
            "--concrete-playback=print",
        ] + CONFIGS[cfg]["args"]
        cmd = "ulimit -v %d; exec timeout -k 10 %d %s" % (
            int(mem_gb * 1024 * 1024), int(timeout_s), " ".join(_shq(a) for a in common))
        p = subprocess.run(["bash", "-c", cmd], cwd=CRATE, env=env, capture_output=True, text=True)
        text = p.stdout + p.stderr
    tests = []
    cur = None
    for ln in text.splitlines():
        s = ln.strip()
        if s.startswith("let concrete_vals"):
            cur = []
            continue
        if cur is not None:
            m = re.match(r"vec!\[([0-9, ]*)\],?$", s)
            if m:
                body = m.group(1).strip()
                cur.append([int(x) for x in body.split(",") if x.strip()] if body else [])
            elif s.startswith("];"):
                tests.append(cur)
                cur = None
    return tests, text
