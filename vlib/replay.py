"""Counterexample lifting and native replay (DESIGN.md §6).

A solver counterexample is never reported by itself.  Its concrete input text (decoded from
Kani's concrete playback values) is embedded behind API-level context prefixes, and — because a
unit-level counterexample often needs surrounding program text to be reachable through
`lex_program` — the property's API-level oracle is also evaluated on a replay corpus (the
repository's own inline test strings, a hand-written construct list, and every truncation of the
short ones).  Only an input on which the natively built lexer (dev + release, with and without
`macro_sep`) violates the SAME property is reported, as the replay file of the VIOLATION line.
"""
import hashlib
import json
import os
import re
import shutil
import subprocess
import sys

from . import kani, findings

REPLAY_DIR = os.environ.get("VERIF_REPLAY_DIR", os.path.join(kani.VERIF, "replay"))
REPLAYS_OUT = os.path.join(kani.VERIF, "replays")
CACHE = os.path.join(kani.VERIF, ".cache")
BIN = {
    ("plain", "debug"): os.path.join(REPLAY_DIR, "target/plain/debug/verif-replay"),
    ("plain", "release"): os.path.join(REPLAY_DIR, "target/plain/release/verif-replay"),
    ("sep", "debug"): os.path.join(REPLAY_DIR, "target/sep/debug/verif-replay"),
    ("sep", "release"): os.path.join(REPLAY_DIR, "target/sep/release/verif-replay"),
    ("nightly", "release"): os.path.join(REPLAY_DIR, "target/nightly/release/verif-replay"),
}
SINGLE_RUN = {"C01", "C02", "C03", "C04", "C05", "C06", "C07", "C08", "C09", "C10", "C11"}
_built = [False]

CONTEXTS = {
    "default": ["", "x;\n", "data a;\n"],
    "semi_text": ["%put ", "%let a="],
    "stat_opts": ["%goto ", "%macro m/ "],
    "arg_value": ["%m(a=", "%scan(", "%upcase(", "%m(b=(", "%macro m(a="],
    "arg_or_value": ["%m(", "%m(a,"],
    "str_call": ["%str(", "%nrstr(", "%str(("],
    "str_expr": ["\"", "x=\"&a", "%put \""],
    "eval": ["%eval(", "%if ", "%sysevalf(", "%do i=1 %to ", "%eval(("],
    "name_expr": ["%let ", "%do "],
    "after_ident": ["%m", "a %m", "%macro x; %m"],
    "after_do": ["%do", "%do "],
    "in_macro": ["%macro m;\n", "%macro m; a=1"],
    "quote": ["", "x=", "%put "],
    "eof": [""],
}
SUFFIXES = ["", ";", ")", ");", "\n"]


_build_lock = __import__("threading").Lock()


def build():
    with _build_lock:
        if _built[0]:
            return True
        p = subprocess.run(["bash", os.path.join(REPLAY_DIR, "build.sh")], capture_output=True, text=True)
        _built[0] = p.returncode == 0
        if not _built[0]:
            print("replay build failed:\n" + (p.stdout + p.stderr)[-1500:])
        return _built[0]


def _repo_test_literals():
    src = os.path.join(kani.CRATE, "src/lexer/tests/test_inline_strings.rs")
    lits = set()
    try:
        txt = open(src, encoding="utf-8").read()
    except OSError:
        return []
    for m in re.finditer(r'r#"(.*?)"#', txt, re.S):
        lits.add(m.group(1))

    def unesc(mm):
        c = mm.group(1)
        table = {"n": "\n", "t": "\t", "r": "\r", "0": "\0", "\\": "\\", '"': '"', "'": "'"}
        if c in table:
            return table[c]
        if c.startswith("u{"):
            return chr(int(c[2:-1], 16))
        if c.startswith("\n"):
            return ""
        return "\\" + c

    for m in re.finditer(r'(?<![r#])"((?:[^"\\]|\\.)*)"', txt, re.S):
        lits.add(re.sub(r"\\(u\{[0-9a-fA-F]+\}|\n\s*|.)", unesc, m.group(1), flags=re.S))
    return sorted(lits)


def _extra_corpus():
    out = []
    p = os.path.join(REPLAY_DIR, "corpus_extra.txt")
    if os.path.exists(p):
        for ln in open(p, encoding="utf-8"):
            ln = ln.rstrip("\n")
            if not ln or ln.startswith("#"):
                continue
            out.append(json.loads('"' + ln.replace('"', '\\"') + '"') if "\\" in ln else ln)
    sd = os.path.join(kani.CRATE, "src/lexer/tests/samples")
    if os.path.isdir(sd):
        for f in sorted(os.listdir(sd)):
            if f.endswith(".sas"):
                try:
                    out.append(open(os.path.join(sd, f), encoding="utf-8").read())
                except OSError:
                    pass
    return out


def corpus():
    base = _extra_corpus() + _repo_test_literals()
    seen = set()
    out = []
    for s in base:
        if s not in seen:
            seen.add(s)
            out.append(s)
    # multi-byte / BOM variants and truncations of the short ones (end-of-input recovery)
    extra = []
    for s in out:
        if len(s) <= 48:
            for k in range(1, len(s)):
                extra.append(s[:k])
        if len(s) <= 120:
            if " " in s:
                # Unicode / control whitespace instead of blanks
                extra.append(s.replace(" ", "\u00a0"))
                extra.append(s.replace(" ", "\x0b"))
                extra.append(s.replace(" ", "\u3000 "))
            extra.append("\ufeff" + s)
            extra.append("/*\u00e9\U0001f525*/" + s)
            extra.append("\u00e9=1;\n" + s)
    # end-of-input closure: every nesting of up to three constructs cut off right after their openers
    openers = ['"', "'", "%str(", "%nrstr((", "%eval(", "%eval((1 ", "%if (", "%if ", "%do i=(", "%do i=1 %to (", "%do %while(", "%m(", "%m(a=(",
               "%let a=", "%let ", "%put ", "%sysfunc(abs(", "%scan(a,", "%macro m(a=", "%macro ", "%goto ", "%local / ", "%copy m ", "/* ", "%* ", "&a", "data;cards;\n1"]
    for a in openers:
        extra.append(a)
        extra.append(a + "1")
        for b in openers:
            extra.append(a + b)
            extra.append(a + b + "1")
            for c in ('"', "%eval((", "%if (", "%str((", "%m((", "%do i=(1 "):
                extra.append(a + b + c)
                extra.append(a + b + c + "1")
    for s in extra:
        if s not in seen:
            seen.add(s)
            out.append(s)
    return out


def _write_dir(name, inputs):
    d = os.path.join(CACHE, name)
    shutil.rmtree(d, ignore_errors=True)
    os.makedirs(d)
    idx = {}
    for i, s in enumerate(inputs):
        fn = "%06d.sas" % i
        with open(os.path.join(d, fn), "w", encoding="utf-8", newline="") as f:
            f.write(s)
        idx[fn] = s
    return d, idx


def _run_many(exe, mode_args, d):
    p = subprocess.run([exe] + mode_args + [d], capture_output=True, text=True, errors="replace")
    res = {}
    cur = None
    for ln in p.stdout.split("\n"):
        if ln.startswith("@@ "):
            name, _, rest = ln[3:].partition("\t")
            cur = name
            res[cur] = [rest]
        elif cur is not None:
            res[cur].append(ln)
    return res


def decode_txt(vals, fixed):
    """Concrete values of a Txt-based harness: first `extra` (usize), then that many chars."""
    if not vals or len(vals[0]) != 8:
        return None
    extra = int.from_bytes(bytes(vals[0]), "little")
    if extra > 16 or len(vals) < 1 + extra:
        return None
    chars = list(fixed)
    for v in vals[1:1 + extra]:
        if len(v) != 4:
            return None
        cp = int.from_bytes(bytes(v), "little")
        try:
            chars.append(chr(cp))
        except ValueError:
            return None
    try:
        s = "".join(chars)
        s.encode("utf-8")
        return s
    except UnicodeEncodeError:
        return None


def candidates_from_cex(h, cfg, tests):
    out = []
    fixed = h.get("fixed") or ""
    ctxs = []
    for c in (h.get("contexts") or ["default"]):
        ctxs += CONTEXTS.get(c, [c])
    for vals in tests:
        txt = decode_txt(vals, fixed) if h.get("decoder") == "txt" else None
        if txt is None:
            continue
        for pre in ctxs:
            for suf in SUFFIXES:
                out.append(pre + txt + suf)
                out.append("\u00e9;\n" + pre + txt + suf)
    return out


def _violates_single(pid, results_line, cfg_kind):
    first = results_line[0] if results_line else ""
    if first.startswith("FAIL " + pid):
        return first
    # a panic / hang means there is no token buffer at all for this input: every property about the result is
    # violated on it, not only totality (the unchanged lexer panics on no corpus input: bin/corpus_selftest C01)
    if first.startswith("PANIC") or first.startswith("TIMEOUT"):
        return first + ("" if pid == "C01" else f"  (no result for this input, so {pid} cannot hold on it)")
    return None


def _strip_dump(lines, drop_sep=False, bulk=None):
    """canonical comparison form of a dump: tokens (type, channel, offsets, lines, payload), errors, literal buffer"""
    toks, errs, lit = [], [], None
    for ln in lines:
        if ln.startswith("T "):
            f = ln.split(" ")
            toks.append(f[2:])
        elif ln.startswith("B ") and not drop_sep and bulk is not None:
            bulk.append(ln.split(" ")[1:])
        elif ln.startswith("E "):
            errs.append(ln.split(" ")[1:])
        elif ln.startswith("L "):
            lit = ln[2:]
    if drop_sep:
        keep, shift = [], []
        removed = 0
        for t in toks:
            if t[0] == "MacroSep":
                removed += 1
            else:
                keep.append(t)
            shift.append(removed)
        # renumber error last_token indices
        new_errs = []
        for e in errs:
            lt = int(e[-1])
            if lt >= 0:
                lt = lt - shift[lt] if lt < len(shift) else lt
            new_errs.append(e[:-1] + [str(lt)])
        toks, errs = keep, new_errs
    return toks, errs, lit


def _sep_placement_bad(lines):
    toks = [ln.split(" ") for ln in lines if ln.startswith("T ")]
    prev_def = None
    STAT = re.compile(r"^(MacroLabel|Kwm(Abort|Copy|Display|Global|Goto|Input|Local|Put|Return|Symdel|Syscall|Sysexec|Syslput|Sysmacdelete|Sysmstoreclear|Sysrput|Window|Macro|Mend|Let|If|Else|Do|End))$")
    for i, t in enumerate(toks):
        tt, ch = t[2], t[3]
        if tt == "MacroSep":
            if t[4] != t[5] or ch != "DEFAULT":
                return "MacroSep not zero-width on the default channel"
            nxt = next((u for u in toks[i + 1:] if u[3] == "DEFAULT"), None)
            if nxt is None or not STAT.match(nxt[2]):
                return "MacroSep not directly before a macro statement keyword or label"
            if prev_def in (None, "SEMI", "MacroLabel", "KwmThen", "KwmElse"):
                return f"MacroSep directly after {prev_def}"
        if ch == "DEFAULT":
            prev_def = tt
    return None


def differential(pid, inputs):
    """Differential properties evaluated natively on `inputs`; returns (input, message) or None."""
    if not inputs:
        return None
    d, idx = _write_dir(f"diff-{pid}", inputs)
    if pid == "C19":
        a = _run_many(BIN[("plain", "debug")], ["dumpm"], d)
        b = _run_many(BIN[("plain", "release")], ["dumpm"], d)
        c = _run_many(BIN[("nightly", "release")], ["dumpm"], d) if os.path.exists(BIN[("nightly", "release")]) else None
        for fn in sorted(idx):
            ra, rb = a.get(fn, ["?"]), b.get(fn, ["?"])
            if ra[0].startswith("PANIC") or rb[0].startswith("PANIC") or ra[0].startswith("TIMEOUT") or rb[0].startswith("TIMEOUT"):
                if ra[0].split(" ")[0] != rb[0].split(" ")[0]:
                    return idx[fn], f"debug build: {ra[0][:80]} / release build: {rb[0][:80]}"
                continue
            if ra[1:] != rb[1:]:
                return idx[fn], "debug and release builds return different results"
            if c is not None and c.get(fn, ["?"])[1:] != rb[1:]:
                return idx[fn], "stable and nightly toolchain builds return different results"
    elif pid == "C18":
        a = _run_many(BIN[("plain", "debug")], ["dumpm"], d)
        b = _run_many(BIN[("sep", "debug")], ["dumpm"], d)
        a2 = _run_many(BIN[("plain", "release")], ["dumpm"], d)
        b2 = _run_many(BIN[("sep", "release")], ["dumpm"], d)
        for fn in sorted(idx):
            for ra, rb in ((a.get(fn, ["?"]), b.get(fn, ["?"])), (a2.get(fn, ["?"]), b2.get(fn, ["?"]))):
                if not (ra[0].startswith("DUMP") and rb[0].startswith("DUMP")):
                    if ra[0].split(" ")[0] != rb[0].split(" ")[0]:
                        return idx[fn], f"feature off: {ra[0][:80]} / feature on: {rb[0][:80]}"
                    continue
                if _strip_dump(ra) != _strip_dump(rb, drop_sep=True):
                    return idx[fn], "macro_sep build differs from the plain build by more than MacroSep tokens"
                bad = _sep_placement_bad(rb)
                if bad:
                    return idx[fn], bad
    elif pid == "C17":
        boms = ["\ufeff" + s for s in inputs if not s.startswith("\ufeff")]
        plain = [s for s in inputs if not s.startswith("\ufeff")]
        d1, i1 = _write_dir("diff-C17a", plain)
        d2, i2 = _write_dir("diff-C17b", boms)
        for kind in ("debug", "release"):
            a = _run_many(BIN[("plain", kind)], ["dumpm"], d1)
            b = _run_many(BIN[("plain", kind)], ["dumpm"], d2)
            for fn in sorted(i1):
                ra, rb = a.get(fn, ["?"]), b.get(fn, ["?"])
                if not (ra[0].startswith("DUMP") and rb[0].startswith("DUMP")):
                    continue
                ta, ea, la = _strip_dump(ra)
                tb, eb, lb = _strip_dump(rb)
                exp_t = [[t[0], t[1], str(int(t[2]) + 3), str(int(t[3]) + 3), str(int(t[4]) + 1), str(int(t[5]) + 1)] + t[6:] for t in ta]
                exp_e = [[e[0], str(int(e[1]) + 3), str(int(e[2]) + 1)] + e[3:] for e in ea]
                if exp_t != tb or exp_e != eb or la != lb:
                    return i2[fn], "a leading byte-order mark changes more than the offsets (+3 bytes, +1 char)"
                ba = [ln.split(" ") for ln in ra if ln.startswith("B ")]
                bb = [ln.split(" ") for ln in rb if ln.startswith("B ")]
                exp_b = [x[:4] + [str(int(x[4]) + 1), str(int(x[5]) + 1)] + x[6:] for x in ba]
                if exp_b != bb:
                    return i2[fn], "a leading byte-order mark changes lines/columns in the bulk resolved-token view"
    elif pid == "C16":
        variants = []

        def alt(s, phase):
            # alternating case over the ASCII letters (dT / Dt, eQ / Eq, ...)
            out, k = [], phase
            for ch in s:
                if ch.isascii() and ch.isalpha():
                    out.append(ch.upper() if k % 2 == 0 else ch.lower())
                    k += 1
                else:
                    out.append(ch)
            return "".join(out)
        for s in inputs:
            for v in (s.upper(), s.lower(), s.swapcase(), alt(s, 0), alt(s, 1)):
                # only ASCII letters may change
                w = "".join(b if (a.isascii() and a.isalpha()) else a for a, b in zip(s, v)) if len(v) == len(s) else None
                if w is not None and w != s:
                    variants.append((s, w))
        d1, i1 = _write_dir("diff-C16a", [a for a, _ in variants])
        d2, i2 = _write_dir("diff-C16b", [b for _, b in variants])
        for kind in ("debug", "release"):
            a = _run_many(BIN[("plain", kind)], ["dumpm"], d1)
            b = _run_many(BIN[("plain", kind)], ["dumpm"], d2)
            for fn in sorted(i1):
                ra, rb = a.get(fn, ["?"]), b.get(fn, ["?"])
                if not (ra[0].startswith("DUMP") and rb[0].startswith("DUMP")):
                    if ra[0].split(" ")[0] != rb[0].split(" ")[0]:
                        return i2[fn], "letter case changes whether lexing returns"
                    continue
                ta, ea, _ = _strip_dump(ra)
                tb, eb, _ = _strip_dump(rb)

                def canon(toks):
                    # string payload ranges are positions in the (case-dependent) literal buffer: compare presence only
                    return [t[:-1] + [t[-1] if not t[-1].startswith("S") else "S"] for t in toks]
                if canon(ta) != canon(tb) or ea != eb:
                    return i2[fn], f"tokenization depends on ASCII letter case (variant of {i1[fn]!r})"
    elif pid == "C15":
        closers = ["x=1;", "%let a=1;", "data a;\nset b; run;", "%put done;", "/* c */\n y;", "%macro m; %mend;", "x='a''b';", "data;cards;\n1\n;",
                   "%do %while(&i<3); x&i %end;", "%do %until(&i>3); %put a; y %end;", "%macro v(n); %do i=1 %to &n; x&i %end; total %mend;",
                   "%if &a %then %do; z %end; %else %do; w %end;", "%m(a=1, b=(2,3))\n;", "%lbl: %goto lbl;", "%let q=%str(%'a);", "/* c */ * d;"]
        # continuations that make carried-over state visible (a star comment with a macro trigger, datalines and
        # an expression operand right at the boundary, a label, a statement keyword), then the head of the corpus
        followers = ["* run %m(1) to test;\ndata a; set b; run;", "*%put debugging;\n%m(2);", "* plain comment; x=1;", "datalines;\n1 2\n;\nrun;",
                     "cards4;\na;b\n;;;;", "%lbl: %put x;", "%put a; %let b=%eval(= 1);", "x = y * z; * c;", "%m(a=1)", "\n%end; %mend; * d %e;", "'unterminated"]
        inputs = followers + [s for s in inputs if s not in followers]
        pairs = [(a, b) for a in closers for b in inputs[:400]]
        dA, iA = _write_dir("diff-C15a", closers)
        dB, iB = _write_dir("diff-C15b", inputs[:400])
        dAB, iAB = _write_dir("diff-C15ab", [a + b for a, b in pairs])
        for kind in ("debug", "release"):
            ra_all = _run_many(BIN[("plain", kind)], ["dumpm"], dA)
            rb_all = _run_many(BIN[("plain", kind)], ["dumpm"], dB)
            rab_all = _run_many(BIN[("plain", kind)], ["dumpm"], dAB)
            k = 0
            for ai, a in enumerate(closers):
                ra = ra_all.get("%06d.sas" % ai, ["?"])
                for bi, b in enumerate(inputs[:400]):
                    rab = rab_all.get("%06d.sas" % k, ["?"])
                    rb = rb_all.get("%06d.sas" % bi, ["?"])
                    k += 1
                    if not (ra[0].startswith("DUMP") and rb[0].startswith("DUMP") and rab[0].startswith("DUMP")):
                        if rb[0].split(" ")[0] != rab[0].split(" ")[0]:
                            return a + b, "a closed prefix changes whether lexing of the continuation returns"
                        continue
                    ta, ea, la = _strip_dump(ra)
                    tb, eb, lb = _strip_dump(rb)
                    tab, eab, lab = _strip_dump(rab)
                    ab, ac = len(a.encode()), len(a)
                    al = a.count("\n")
                    na = len(ta) - 1
                    # string payloads shift by the literal length of A
                    la_len = len(json.loads(la)) if la else 0

                    last_col = len(a) - (a.rfind("\n") + 1)

                    def shc(line, col):
                        # positions on B's first line continue A's last line
                        return "%d:%d" % (int(line) + al, int(col) + (last_col if int(line) == 1 else 0))

                    def sh(t):
                        s_l, s_c = t[6].split(":")
                        e_l, e_c = t[7].split(":")
                        pl = t[8]
                        if pl.startswith("S"):
                            x, y = pl[1:].split("-")
                            pl = "S%d-%d" % (int(x) + la_len, int(y) + la_len)
                        return [t[0], t[1], str(int(t[2]) + ab), str(int(t[3]) + ab), str(int(t[4]) + ac), str(int(t[5]) + ac),
                                shc(s_l, s_c), shc(e_l, e_c), pl]
                    exp_t = ta[:-1] + [sh(t) for t in tb]
                    exp_e = ea + [[e[0], str(int(e[1]) + ab), str(int(e[2]) + ac), shc(*e[3].split(":")),
                                   str(int(e[4]) + na if int(e[4]) >= 0 else (na - 1 if na > 0 else -1))] for e in eb]
                    if exp_t != tab or exp_e != eab:
                        return a + b, "result for A+B is not result(A) followed by shifted result(B)"
    return None


DELIM_TYPES = {"LPAREN", "RPAREN", "COMMA", "ASSIGN", "SEMI", "PLUS", "MINUS", "STAR", "STAR2", "FSLASH", "LT", "LE", "GT", "GE", "NE", "NOT",
               "PIPE", "HASH", "KwLT", "KwLE", "KwEQ", "KwIN", "KwNE", "KwGT", "KwGE", "KwAND", "KwOR", "KwNOT"}


def c13_suite():
    """[(text, expected delimiter spans, expected integer spans)] from the marked templates."""
    out = []
    p = os.path.join(REPLAY_DIR, "c13_templates.txt")
    if not os.path.exists(p):
        p = os.path.join(kani.VERIF, "replay", "c13_templates.txt")
    for ln in open(p, encoding="utf-8"):
        ln = ln.rstrip("\n")
        if not ln or ln.startswith("#"):
            continue
        ln = ln.replace("\\n", "\n")
        text, delims, ints = "", set(), set()
        i = 0
        while i < len(ln):
            c = ln[i]
            if c in "\u27e6\u27ea":
                close = "\u27e7" if c == "\u27e6" else "\u27eb"
                j = ln.index(close, i)
                inner = ln[i + 1:j]
                start = len(text.encode("utf-8"))
                text += inner
                (delims if c == "\u27e6" else ints).add((start, len(text.encode("utf-8"))))
                i = j + 1
            else:
                text += c
                i += 1
        out.append((text, delims, ints))
    return out


def c13_check():
    suite = c13_suite()
    d, idx = _write_dir("c13", [t for t, _, _ in suite])
    for kind in (("plain", "debug"), ("plain", "release"), ("sep", "debug")):
        res = _run_many(BIN[kind], ["dumpm"], d)
        for i, (text, delims, ints) in enumerate(suite):
            r = res.get("%06d.sas" % i, ["?"])
            if not r[0].startswith("DUMP"):
                continue  # a panic is C01's business
            got_d, got_i = set(), set()
            for ln in r:
                if ln.startswith("T "):
                    f = ln.split(" ")
                    span = (int(f[4]), int(f[5]))
                    if f[2] in DELIM_TYPES and span[0] != span[1] and f[3] == "DEFAULT":
                        got_d.add(span)
                    if f[2] == "IntegerLiteral":
                        got_i.add(span)
            if got_d != delims:
                extra = sorted(got_d - delims)
                missing = sorted(delims - got_d)
                return text, f"[{kind[0]}/{kind[1]}] delimiter/operator tokens differ from the generator's positions: unexpected {extra[:3]}, missing {missing[:3]}"
            if got_i != ints:
                return text, f"[{kind[0]}/{kind[1]}] integer operand tokens differ from the generator's positions: got {sorted(got_i)[:4]}, expected {sorted(ints)[:4]}"
    return None


ARG_BUILTINS = ["cmpres", "compstor", "datatyp", "eval", "index", "left", "length", "lowcase", "scan", "substr", "symexist", "symglobl", "symlocal",
                "sysevalf", "sysfunc", "sysget", "sysmacexec", "sysmacexist", "sysmexecname", "sysprod", "trim", "unquote", "upcase", "verify",
                "kcmpres", "kindex", "kleft", "klength", "klowcase", "kscan", "ksubstr", "ktrim", "kupcase", "kverify", "validchs",
                "qcmpres", "qleft", "qlowcase", "qscan", "qsubstr", "qtrim", "qsysfunc", "qupcase",
                "qkcmpres", "qkleft", "qklowcase", "qkscan", "qksubstr", "qktrim", "qkupcase",
                "bquote", "nrbquote", "nrquote", "quote", "superq", "str", "nrstr"]
KIND_TOK = {"MissingExpectedRParen": "RPAREN", "MissingExpectedAssign": "ASSIGN", "MissingExpectedLParen": "LPAREN",
            "MissingExpectedComma": "COMMA", "MissingExpectedFSlash": "FSLASH", "MissingExpectedSemiOrEOF": "SEMI"}


def c14_suite():
    """(text with one mandatory delimiter deleted, expected error kind, expected byte offset)"""
    out = []
    # blanks and comments between the construct and the place of the omitted delimiter, incl. whitespace that is
    # not ASCII whitespace (vertical tab, no-break space, ideographic space) first or alone
    for gap in (" ", "\n", " /*c*/ ", "\x0b", "\u00a0", "\u3000 ", "\x0b/*c*/"):
        out.append((f"%let a{gap}1;", "MissingExpectedAssign", len(f"%let a{gap}".encode())))
        out.append((f"%do i{gap}1 %to 3; %end;", "MissingExpectedAssign", len(f"%do i{gap}".encode())))
        out.append((f"%copy m{gap}source;", "MissingExpectedFSlash", len(f"%copy m{gap}".encode())))
        out.append((f"%sysmacdelete m{gap}nowarn;", "MissingExpectedFSlash", len(f"%sysmacdelete m{gap}".encode())))
        for kw in ("%end", "%return"):
            out.append((f"{kw}{gap}x = 1;", "MissingExpectedSemiOrEOF", len(f"{kw}{gap}".encode())))
        for kw in ("%while", "%until"):
            out.append((f"%do {kw}(&i<3){gap}x;", "MissingExpectedSemiOrEOF", len(f"%do {kw}(&i<3){gap}".encode())))
        for b in ARG_BUILTINS:
            out.append((f"%{b}{gap}a)", "MissingExpectedLParen", len(f"%{b}{gap}".encode())))
    for b in ("scan", "qscan", "kscan", "qkscan", "substr", "qsubstr", "ksubstr", "qksubstr"):
        out.append((f"%{b}(&a. 1)", "MissingExpectedComma", len(f"%{b}(&a. 1".encode())))
        out.append((f"%let x=%{b.upper()}( a b /*c*/ 2 );", "MissingExpectedComma", len(f"%let x=%{b.upper()}( a b /*c*/ 2 ".encode())))
    for t in ("%eval(1", "%eval((1+2", "%let x=%eval((1+2", "%sysfunc(abs((1", "%upcase((a", "%str((a", "%nrstr(a(b(c", "%m(a", "%scan(a,1", "%if (a", "%do i=(1", "%do i=1 %to (3", "%eval((1 ", "%eval((\"", "%m((\"", "%if (\"", "%str((\""):
        out.append((t, "MissingExpectedRParen", len(t.encode())))
    return out


def c14_check():
    suite = c14_suite()
    d, idx = _write_dir("c14", [t for t, _, _ in suite])
    for kind in (("plain", "debug"), ("plain", "release")):
        res = _run_many(BIN[kind], ["dumpm"], d)
        for i, (text, ek, off) in enumerate(suite):
            r = res.get("%06d.sas" % i, ["?"])
            if not r[0].startswith("DUMP"):
                continue
            errs = [ln.split(" ") for ln in r if ln.startswith("E ")]
            toks = [ln.split(" ") for ln in r if ln.startswith("T ")]
            if not any(e[1] == ek and int(e[2]) == off for e in errs):
                return text, f"[{kind[0]}/{kind[1]}] omitted delimiter not diagnosed: expected {ek} at byte {off}, errors: {[(e[1], e[2]) for e in errs][:4]}"
            tt = KIND_TOK[ek]
            n_rec = sum(1 for t in toks if t[2] == tt and int(t[4]) == off and int(t[5]) == off)
            if n_rec == 0:
                return text, f"[{kind[0]}/{kind[1]}] no zero-width {tt} recovery token at byte {off} where the delimiter was expected"
            if ek == "MissingExpectedRParen" and n_rec != text.count("(") - text.count(")"):
                return text, f"[{kind[0]}/{kind[1]}] {text.count('(') - text.count(')')} parentheses open at end of input but {n_rec} recovery tokens"
    return None


def c08_suite():
    """(text, byte offset of the literal, spelling, expected type, expected payload string) for literal spellings whose
    value is computed here, independently of the lexer: decimal / hexadecimal integers, floats, exponent notation."""
    import struct
    out = []

    def fbits(x):
        return "F%016x" % struct.unpack("<Q", struct.pack("<d", x))[0]
    ints = ["0", "7", "42", "007", "123456789", "18446744073709551615", "4294967296"]
    floats = ["1.5", "0.25", ".5", "10.", "3.14159", "1e3", "1E3", "2.5e-3", "1e+2", "7E0", "12.5E1", "18446744073709551616", "99999999999999999999"]
    hexes = ["0fx", "0FX", "1Ax", "9x", "12X", "0ffx", "1E1x", "0e0X", "12E5Fx", "007E308x", "1e2x", "0abcdefx", "0ABCDEFX", "1AE1x", "02Ax", "0FFFFFFFFFFFFFFFFx", "1Ex", "0dx", "0Bx"]
    for ctx_pre, ctx_suf in (("v=", ";"), ("x = a + ", " ;"), ("if y > ", " then z;")):
        for sp in ints:
            out.append((ctx_pre + sp + ctx_suf, len(ctx_pre.encode()), sp, "IntegerLiteral", "I%d" % int(sp)))
        for sp in floats:
            tt = "FloatExponentLiteral" if ("e" in sp or "E" in sp) else "FloatLiteral"
            out.append((ctx_pre + sp + ctx_suf, len(ctx_pre.encode()), sp, tt, fbits(float(sp))))
        for sp in hexes:
            v = int(sp[:-1], 16)
            if v <= 0xFFFFFFFFFFFFFFFF:
                out.append((ctx_pre + sp + ctx_suf, len(ctx_pre.encode()), sp, "IntegerLiteral", "I%d" % v))
    # standalone operands of macro arithmetic: integers always, floats in %sysevalf only
    for sp in ("0", "42", "007", "1e3x", "0fx", "1AX"):
        v = int(sp[:-1], 16) if sp[-1] in "xX" else int(sp)
        for pre, suf in (("%eval(", " + 1)"), ("%sysevalf(", "*2)"), ("%if ", " %then %put a;")):
            out.append((pre + sp + suf, len(pre.encode()), sp, "IntegerLiteral", "I%d" % v))
    for sp in ("1.5", "2e3", ".25"):
        tt = "FloatExponentLiteral" if "e" in sp else "FloatLiteral"
        out.append(("%sysevalf(" + sp + " + 1)", len("%sysevalf("), sp, tt, fbits(float(sp))))
    return out


def c08_check():
    suite = c08_suite()
    d, idx = _write_dir("c08", [t for t, _, _, _, _ in suite])
    for kind in (("plain", "debug"), ("plain", "release")):
        res = _run_many(BIN[kind], ["dumpm"], d)
        for i, (text, off, sp, tt, pl) in enumerate(suite):
            r = res.get("%06d.sas" % i, ["?"])
            if not r[0].startswith("DUMP"):
                continue
            toks = [ln.split(" ") for ln in r if ln.startswith("T ")]
            hit = [t for t in toks if int(t[4]) == off]
            end = off + len(sp.encode())
            if not hit or int(hit[0][5]) != end or hit[0][2] != tt or hit[0][-1] != pl:
                got = (hit[0][2], hit[0][4], hit[0][5], hit[0][-1]) if hit else None
                return text, f"[{kind[0]}/{kind[1]}] numeric literal {sp!r}: expected one {tt} token [{off}, {end}) with payload {pl}, got {got}"
    return None


def _save(pid, text):
    os.makedirs(os.path.join(REPLAYS_OUT, pid), exist_ok=True)
    h = hashlib.sha256(text.encode("utf-8")).hexdigest()[:16]
    path = os.path.join(REPLAYS_OUT, pid, h + ".sas")
    with open(path, "w", encoding="utf-8", newline="") as f:
        f.write(text)
    return path


def search(pid, inputs, cfg="debug"):
    """First input (in order) on which the natively built lexer violates `pid`. Returns (text, msg) or None."""
    if pid == "C08":
        hit = c08_check()
        if hit is not None:
            return hit
    if pid in SINGLE_RUN:
        d, idx = _write_dir(f"cand-{pid}", inputs)
        kinds = [("plain", "debug"), ("plain", "release"), ("sep", "debug"), ("sep", "release")]
        for k in kinds:
            res = _run_many(BIN[k], ["checkm", pid], d)
            for fn in sorted(idx):
                v = _violates_single(pid, res.get(fn), k)
                if v:
                    return idx[fn], f"[{k[0]}/{k[1]}] {v[:300]}"
        return None
    if pid == "C13":
        return c13_check()
    if pid == "C14":
        return c14_check()
    return differential(pid, inputs)


def confirm(pid, h, cfg, r, mine, known):
    """Called for a harness whose solver run produced a counterexample tagged with `pid`.
    Phase 1: the property's native oracle over the replay corpus (about a minute). Phase 2, only if phase 1 finds
    nothing: concrete playback of the counterexample (a second solver run), its text lifted into API-level contexts."""
    descs = "; ".join(sorted({fc["desc"] for fc in mine}))[:400]
    if not build():
        return [("inconclusive", None, "replay binaries could not be built")]
    out = []
    seen_known = []

    def hunt(inputs):
        remaining = list(inputs)
        for attempt in range(6):
            hit = search(pid, remaining, cfg)
            if hit is None:
                return None
            text, msg = hit
            k = findings.match(known, pid, text)
            if k is not None:
                seen_known.append(json.dumps(text) + " :: " + k["what"])
                remaining = [s for s in remaining if s != text]
                continue
            return text, msg
        return None

    hit = hunt(corpus())
    ncand = 0
    if hit is None and h.get("decoder") == "txt":
        tests = []
        try:
            tests, _ = kani.concrete_playback(h, cfg, min(h["timeout"], 1500), h["mem"])
        except Exception as e:  # pragma: no cover
            print("concrete playback failed:", e)
        cands = candidates_from_cex(h, cfg, tests)
        ncand = len(cands)
        if cands:
            hit = hunt(cands)
    if hit is not None:
        text, msg = hit
        path = _save(pid, text)
        out.append(("violation", path, f"{descs} -- reproduced through lex_program: {msg}"))
    for k in seen_known:
        out.append(("known", None, k))
    if not any(o[0] == "violation" for o in out):
        out.append(("inconclusive", None,
                    f"solver counterexample ({descs}) did not reproduce through the public API on the replay corpus "
                    f"+ {ncand} lifted inputs: the pre-state may be unreachable or the corpus too small"))
    return out


def replay_file(pid, path):
    if not build():
        return 2
    text = open(path, encoding="utf-8").read()
    hit = search(pid, [text])
    if hit is None:
        print(f"replay {path}: property {pid} holds on this input (all native build configurations)")
        return 0
    print(f"VIOLATION property={pid} replay={path}")
    print("  " + hit[1])
    return 1
