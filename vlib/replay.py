"""Counterexample lifting and native replay (DESIGN.md §6) — filled in below."""
import os

from . import kani


def confirm(pid, h, cfg, r, mine, known):
    msgs = "; ".join(fc["desc"] for fc in mine[:4])
    return [("inconclusive", None, f"solver counterexample not yet replayed natively: {msgs}")]


def replay_file(pid, path):
    print("replay not implemented yet")
    return 2
