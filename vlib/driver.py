"""bin/check <property> --tier quick|thorough : decide one property with Kani/CBMC on /repo's tree."""
import argparse
import concurrent.futures as cf
import json
import os
import re
import sys
import threading
import time

from . import kani, registry, census, replay, findings

VERIF = kani.VERIF
TOTAL_MEM_GB = float(os.environ.get("VERIF_MEM_GB", "50"))
MAX_JOBS = int(os.environ.get("VERIF_JOBS", "13"))
# campaign aid: stop launching solver runs once one has produced a counterexample tagged with the property
FAIL_FAST = os.environ.get("VERIF_FAIL_FAST", "") != ""

NOT_APPLICABLE = {"C12", "C20"}

TAG_RE = re.compile(r"^((?:C\d\d)(?:/C\d\d)*):")


def tags_of(desc):
    m = TAG_RE.match(desc.strip())
    if not m:
        return None
    return m.group(1).split("/")


def attribute(h, fc):
    """Properties a failed check counts against."""
    t = tags_of(fc["desc"])
    if t is not None:
        # the tag names the properties the assertion states; the properties the harness is primarily about are
        # affected as well (a keyword looked up with the wrong text is C16's statement and C11's classification);
        # a property is reported only if the native replay shows a violation of that very property
        extra = [p for cfg in h["cfgs"] for p in registry.primary_props(h, cfg) if p not in t]
        return t + sorted(set(extra))
    if fc["desc"].startswith("TWIN:"):
        return []
    if kani.is_unwind_failure(fc):
        return []
    # built-in check / debug_assert! of the real code = a panic of the real code in the debug build. That is C01's
    # subject, but what makes the assertion fail usually also breaks the property the harness is about in the
    # release build (e.g. add_token's ordering assertion <-> C02), so the counterexample counts against every
    # property of the harness; it is reported only if the native replay shows a violation of THAT property.
    return list(h["props"])


class MemScheduler:
    def __init__(self, total, max_jobs):
        self.total, self.max_jobs = total, max_jobs
        self.used, self.running = 0.0, 0
        self.cv = threading.Condition()

    def acquire(self, w):
        w = min(w, self.total)
        with self.cv:
            while self.used + w > self.total + 1e-9 or self.running >= self.max_jobs:
                self.cv.wait()
            self.used += w
            self.running += 1

    def release(self, w):
        w = min(w, self.total)
        with self.cv:
            self.used -= w
            self.running -= 1
            self.cv.notify_all()


def run_jobs(jobs, tier, use_cache, progress=True, pid=None, known=None):
    sched = MemScheduler(TOTAL_MEM_GB, MAX_JOBS)
    results = []
    lock = threading.Lock()
    confirm_lock = threading.Lock()
    done = [0]
    stop = [False]

    def wt(h):
        # quick-tier queries were measured at <= 3 GB resident; their ulimit (h["mem"]) stays as a safety cap
        return min(h["weight"], 3.5) if tier == "quick" else h["weight"]

    def work(job):
        h, cfg = job
        sched.acquire(wt(h))
        try:
            if stop[0]:
                return (h, cfg, None)
            tmo = h["timeout"] if tier == "thorough" else min(h["timeout"], int(os.environ.get("VERIF_QUICK_CAP", "1500")))
            r = kani.run_harness(h, cfg, tmo, h["mem"], use_cache=use_cache)
            # a changed tree may call into a loop the harness's unwind bound does not cover (e.g. the scan for the
            # last default-channel token): an unwinding failure alone is retried once with a generous bound (cheap
            # harnesses only), so that the change is decided instead of being left inconclusive
            if (r.get("status") == "fail" and r.get("failed_checks") and all(kani.is_unwind_failure(fc) for fc in r["failed_checks"])
                    and registry.cost(h) <= 150 and not stop[0]):
                r2 = kani.run_harness(h, cfg, tmo, h["mem"], use_cache=False, extra_args=["--unwind", "12"], log_tag=".unwind12")
                if r2.get("status") in ("pass", "fail"):
                    r2["unwind_retry"] = 12
                    r = r2
        except Exception as e:  # pragma: no cover
            r = {"name": h["name"], "cfg": cfg, "status": "error", "log_tail": repr(e), "failed_checks": [],
                 "checks_total": 0, "checks_failed": 0, "covers_sat": 0, "covers_total": 0, "reused": False,
                 "wall_s": 0.0, "verification_time_s": None, "encoding": None}
        finally:
            sched.release(wt(h))
        # a counterexample tagged with this property is lifted and replayed natively right away (the replay
        # binaries are being built in the background since the start of the check); a confirmed violation
        # decides the check, so the remaining queries are not started
        if pid and r.get("status") == "fail" and h["expect"] != "twin" and not stop[0]:
            mine = [fc for fc in r.get("failed_checks", []) if pid in attribute(h, fc)]
            if mine:
                with confirm_lock:
                    if not stop[0]:
                        try:
                            r["confirm"] = replay.confirm(pid, h, cfg, r, mine, known or [])
                        except Exception as e:  # pragma: no cover
                            r["confirm"] = [("inconclusive", None, "replay failed: %r" % (e,))]
                        if any(k == "violation" for k, _, _ in r["confirm"]) or FAIL_FAST:
                            stop[0] = True
        with lock:
            done[0] += 1
            if progress:
                print("  [%d/%d] %-44s %-9s %-8s %6.1fs%s" % (
                    done[0], len(jobs), h["name"], cfg, r["status"], r.get("wall_s", 0.0),
                    " (verdict reused: identical encoding)" if r.get("reused") else ""), flush=True)
        return (h, cfg, r)

    # heavy first (shortest makespan); cheapest first when hunting for the first counterexample
    # the queries whose subject the property is come first (a violation is then found, replayed and the check
    # decided early); inside each group the heavy ones first (shortest makespan)
    prim = (lambda j: pid is not None and pid in registry.primary_props(j[0], j[1]))
    jobs = sorted(jobs, key=lambda j: (j[0]["timeout"], j[0]["weight"])) if FAIL_FAST else sorted(jobs, key=lambda j: (not prim(j), -registry.cost(j[0])))
    with cf.ThreadPoolExecutor(max_workers=MAX_JOBS) as ex:
        for res in ex.map(work, jobs):
            if res[2] is not None:
                results.append(res)
    if stop[0]:
        print(f"  stopped after a natively confirmed counterexample ({len(results)} of {len(jobs)} queries run)", flush=True)
    return results


def main(argv=None):
    ap = argparse.ArgumentParser()
    ap.add_argument("pid")
    ap.add_argument("--tier", default=os.environ.get("VERIF_TIER", "quick"), choices=["quick", "thorough"])
    ap.add_argument("--replay", default=None, help="re-run the API-level oracle of this property on a replay file")
    ap.add_argument("--only", default=None, help="regex on harness names (debugging)")
    ap.add_argument("--no-cache", action="store_true")
    ap.add_argument("--no-evidence", action="store_true")
    args = ap.parse_args(argv)
    pid = args.pid
    seed = int(os.environ.get("VERIF_SEED", "0") or 0)
    t0 = time.time()

    if args.replay:
        return replay.replay_file(pid, args.replay)

    if pid in NOT_APPLICABLE:
        print(f"property {pid} is not applicable to this technique family (see DESIGN.md §9)")
        return 0

    left_out = []
    if args.tier == "quick":
        changed = census.changed_functions()
        if changed:
            print(f"  /repo differs from its HEAD in (or in callees of): {', '.join(sorted(changed))[:400]} - the secondary queries encoding these come first", flush=True)
        jobs, left, est = registry.quick_selection(pid, seed, changed=changed)
        left_out = ["%s[%s]" % (h["name"], cfg) for h, cfg in left]
    else:
        jobs = [(h, cfg) for h in registry.by_property(pid, args.tier) for cfg in h["cfgs"]]
    if args.only:
        jobs = [(h, cfg) for h, cfg in jobs if re.search(args.only, h["name"])]
    if not jobs:
        print(f"no harness registered for {pid}")
        return 2
    hs = {h["name"] for h, _ in jobs}
    print(f"check {pid} tier={args.tier}: {len(hs)} harnesses, {len(jobs)} solver queries "
          f"(encodings regenerated from {kani.REPO})" + (f"; {len(left_out)} secondary queries left to other seeds / the thorough tier by the time budget" if left_out else ""), flush=True)
    # native replay binaries are (re)built from the current tree in the background
    threading.Thread(target=replay.build, daemon=True).start()

    cen = census.scan()
    # thorough ignores the verdict store (and refreshes it); quick reuses a verdict only for a
    # byte-identical encoding produced from the current tree
    use_cache = (not args.no_cache) and args.tier == "quick" and os.environ.get("VERIF_NO_CACHE", "") == ""
    known = findings.load()
    results = run_jobs(jobs, args.tier, use_cache, pid=pid, known=known)

    violations, inconclusive, known_hits, other_fail = [], [], [], []
    samples = []
    obligations = discharged = 0
    nontrivial = 0
    solver_s = 0.0
    reused = 0
    for h, cfg, r in results:
        obligations += r.get("checks_total", 0)
        discharged += r.get("checks_total", 0) - r.get("checks_failed", 0)
        solver_s += r.get("verification_time_s") or 0.0
        reused += 1 if r.get("reused") else 0
        verdict = None
        mine = []
        if h["expect"] == "twin":
            if r["status"] == "fail" and r["failed_checks"] and all(
                    fc["desc"].startswith("TWIN:") for fc in r["failed_checks"]):
                verdict = "twin-reachable"
                nontrivial += 1
            elif r["status"] == "pass":
                verdict = "vacuous"
                inconclusive.append((h, cfg, "vacuity twin passed: post-state unreachable under the harness assumptions"))
            elif r["status"] == "fail":
                verdict = "twin-reachable+other-failures"
                nontrivial += 1
            else:
                verdict = r["status"]
                inconclusive.append((h, cfg, f"twin did not finish: {r['status']}"))
        elif r["status"] == "pass":
            if r["covers_sat"] == r["covers_total"]:
                verdict = "holds-within-bound"
                if r["covers_total"] > 0:
                    nontrivial += 1
            else:
                verdict = "vacuous-cover"
                inconclusive.append((h, cfg, f"only {r['covers_sat']} of {r['covers_total']} cover witnesses satisfied"))
        elif r["status"] == "fail":
            unwind = [fc for fc in r["failed_checks"] if kani.is_unwind_failure(fc)]
            for fc in r["failed_checks"]:
                at = attribute(h, fc)
                if pid in at:
                    mine.append(fc)
                elif at:
                    other_fail.append((h["name"], cfg, fc["desc"]))
            if mine:
                verdict = "counterexample"
            elif unwind:
                verdict = "unwind-bound-too-small"
                inconclusive.append((h, cfg, "unwinding assertion failed: bound too small for this tree"))
            else:
                verdict = "holds-for-this-property (failures belong to other properties)"
                nontrivial += 1
        else:
            verdict = r["status"]
            inconclusive.append((h, cfg, f"solver run did not finish: {r['status']}"))
        samples.append({
            "harness": h["full"], "config": cfg, "bound": h["bound"], "functions_encoded": h["funcs"],
            "stubs": h["stubs"], "assumptions": h["assumes"], "verdict": verdict,
            "cbmc_checks": r.get("checks_total", 0), "cbmc_checks_failed": r.get("checks_failed", 0),
            "covers": "%d/%d" % (r.get("covers_sat", 0), r.get("covers_total", 0)),
            "solver_s": r.get("verification_time_s"), "wall_s": round(r.get("wall_s", 0.0), 1),
            "encoding_sha256": r.get("encoding"), "verdict_reused": bool(r.get("reused")),
            "failed_checks": [fc["desc"] for fc in r.get("failed_checks", [])][:8],
        })
        if mine:
            out = r.get("confirm")
            if out is None:
                out = [("inconclusive", None, "counterexample not replayed (the check was already decided by another query)")] if violations else replay.confirm(pid, h, cfg, r, mine, known)
            for kind, path, msg in out:
                if kind == "violation":
                    violations.append((h, cfg, path, msg))
                elif kind == "known":
                    known_hits.append(msg)
                else:
                    inconclusive.append((h, cfg, msg))

    unc = census.uncovered(cen, pid)
    for site in unc:
        print(f"UNCOVERED property={pid} site={site}")
    for k in sorted(set(known_hits)):
        print(f"KNOWN-FINDING: property={pid} {k}")
    for h, cfg, path, msg in violations:
        print(f"VIOLATION property={pid} replay={path}")
        print(f"  harness={h['name']} config={cfg}: {msg}")
    for h, cfg, msg in inconclusive:
        print(f"INCONCLUSIVE property={pid} harness={h['name']} config={cfg}: {msg}")

    wall = time.time() - t0
    if not args.no_evidence:
        ev = {
            "property_id": pid, "tier": args.tier, "seed": seed, "level": "model_checking",
            "coverage": {
                "evaluations": len(results),
                "distinct_nontrivial": nontrivial,
                "rule": "one evaluation = one bounded solver query (Kani harness x build configuration) over the real "
                        "functions listed, with symbolic inputs within the stated bound; non-trivial = the query finished, "
                        "every kani::cover! witness inside it was SATISFIED (or, for a vacuity twin, its assert(false) was "
                        "reached), so the assertions were checked on a non-empty set of executions. Distinct = distinct "
                        "(harness, configuration) pairs. Nothing is sampled: each query covers all inputs within its bound.",
                "samples": samples,
                "obligations": obligations,
                "discharged": discharged,
                "checker_cmd": "cargo kani --output-format terse -Z stubbing --harness <h> --exact [--features macro_sep] "
                               "(Kani 0.68.0 / CBMC 6.11.0 / CaDiCaL) on /repo/crates/sas-lexer",
                "trusted_base": ["Kani MIR->goto translation and its std models", "CBMC 6.11 + CaDiCaL",
                                 "rustc preserves MIR semantics in optimized builds",
                                 "stub contracts listed per harness"],
                "solver_queries_run": len(results) - reused,
                "verdicts_reused_identical_encoding": reused,
                "solver_time_s": round(solver_s, 1),
                "uncovered_sites": unc,
                "quick_tier_left_out_for_time_budget": left_out,
                "census": census.summary(cen),
                "other_property_failures_seen": other_fail[:20],
                "known_findings_matched": sorted(set(known_hits)),
                "inconclusive": [f"{h['name']}[{cfg}]: {m}" for h, cfg, m in inconclusive],
                "exhaustive": False,
                "explanation": "Bounded model checking of the real code: each harness is exhaustive over its stated bound "
                               "(unwinding assertions on), and says nothing outside it. See DESIGN.md.",
            },
            "assumptions": sorted({a for h, _, _ in results for a in h["assumes"]} |
                                  {"inputs longer than the per-harness bound are outside the claim",
                                   "the induction over lexer steps (DESIGN.md §3.7) is a paper argument"}),
            "wall_s": round(wall, 1),
            "violations": len(violations),
        }
        os.makedirs(os.path.join(VERIF, "evidence"), exist_ok=True)
        with open(os.path.join(VERIF, "evidence", f"{pid}.json"), "w") as f:
            json.dump(ev, f, indent=1)
    print(f"{pid}: {len(results)} queries, {obligations} CBMC checks, {discharged} discharged, "
          f"{len(violations)} violations, {len(inconclusive)} inconclusive, wall {wall:.0f}s")
    if violations:
        return 1
    if inconclusive:
        return 2
    return 0
