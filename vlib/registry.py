"""Harness registry: which #[kani::proof] functions exist under /verif/harness, what real
functions they encode, which properties their assertions are tagged with, and the tier /
configurations / resource budget they run in.

Assertion messages inside the harnesses start with the property tag(s), e.g. "C03: ..." or
"C03/C19: ...".  The driver attributes a failed check to the properties named in its tag; an
untagged failure (Kani's built-in checks: overflow, OOB, unwrap on None, debug_assert!,
unreachable!) is a panic of the real code in the debug build; it counts against every property of
the harness (what trips a debug assertion usually breaks the harness's own property in the release
build), and is reported for a property only if the native replay shows a violation of that property.
"""

HARNESSES = []


def H(name, module, props, tier="quick", cfgs=("debug",), bound="", funcs=(), stubs=(), assumes=(),
      expect="pass", timeout=600, mem=8, weight=None, contexts=None, decoder=None, twin_of=None,
      known=None):
    """Register a harness.

    tier: 'quick' harnesses run in both tiers, 'thorough' ones only in the thorough tier.
    expect: 'pass' | 'twin' (vacuity twin: must FAIL with exactly the TWIN assertion).
    timeout: seconds for the thorough tier / first run; mem: GB for ulimit -v.
    weight: GB used for scheduling (defaults to mem/2).
    contexts/decoder: how a counterexample is lifted to API-level replay inputs (vlib.replay).
    """
    HARNESSES.append({
        "name": name, "module": module, "full": module + "::" + name, "props": list(props),
        "tier": tier, "cfgs": list(cfgs), "bound": bound, "funcs": list(funcs), "stubs": list(stubs),
        "assumes": list(assumes), "expect": expect, "timeout": timeout, "mem": mem,
        "weight": weight if weight is not None else max(1.0, mem / 2.0),
        "contexts": contexts, "decoder": decoder, "twin_of": twin_of, "known": known,
    })


CUR = "lexer::cursor::verif"
BUF = "lexer::buffer::verif"
MAC = "lexer::r#macro::verif"
NUM = "lexer::numeric::verif"
LMO = "lexer::lexer_mode::verif"
LEX = "lexer::verif"

CURSOR_FUNCS = {
    "advance": ["Cursor::new", "Cursor::advance", "Cursor::as_str", "Cursor::char_offset", "Cursor::remaining_len"],
    "advance_by": ["Cursor::advance_by", "Cursor::as_str", "Cursor::char_offset"],
    "eat_char": ["Cursor::eat_char", "Cursor::peek", "Cursor::advance"],
    "eat_while": ["Cursor::eat_while", "Cursor::peek", "Cursor::advance"],
    "peek": ["Cursor::peek", "Cursor::peek_next", "Cursor::chars", "Cursor::clone"],
}

# ---------------------------------------------------------------------------------------------
# cursor.rs  (C03, C19)
for k, tier, tmo in ((2, "quick", 300), (3, "quick", 900), (4, "thorough", 2400)):
    for fn in ("advance", "advance_by", "eat_char", "eat_while", "peek"):
        H(f"cur_{fn}_k{k}", CUR, ["C03", "C19"] if fn == "advance_by" else ["C03"],
          tier=tier, cfgs=("debug", "nodebug"), bound=f"any UTF-8 string of <= {k} code points; "
          + ("n in 1..=k+1, start at any split point" if fn == "advance_by" else "all split points"),
          funcs=CURSOR_FUNCS[fn], timeout=tmo, mem=6,
          decoder="str_k", contexts=["text"])
H("twin_cur_advance_by", CUR, ["C03", "C19"], tier="quick", cfgs=("debug", "nodebug"), expect="twin",
  bound="k<=2", funcs=["Cursor::advance_by"], timeout=300, mem=6)


# ---------------------------------------------------------------------------------------------
# buffer.rs
SH = ["shadow buffer: none (real WorkTokenizedBuffer / TokenizedBuffer methods)"]
H("buf_refines_shadow_mutators", BUF, ["C01", "C02", "C03", "C04", "C06", "C07", "C09", "C10", "C11", "C13", "C14", "C15"], bound="2 tokens, 2 lines, 2 literal bytes (contents symbolic); add_token/add_line/add_string_literal/rollback with symbolic arguments",
  funcs=["WorkTokenizedBuffer::add_token", "WorkTokenizedBuffer::add_line", "WorkTokenizedBuffer::add_string_literal", "WorkTokenizedBuffer::rollback"], timeout=900, mem=10)
H("buf_refines_shadow_observers", BUF, ["C01", "C02", "C03", "C04", "C06", "C07", "C09", "C10", "C11", "C13", "C14", "C15"], bound="3 tokens, 2 lines, 1 literal byte",
  funcs=["WorkTokenizedBuffer::last_line", "WorkTokenizedBuffer::last_token", "WorkTokenizedBuffer::last_token_info", "WorkTokenizedBuffer::last_token_info_on_default_channel", "WorkTokenizedBuffer::checkpoint", "WorkTokenizedBuffer::line_count", "WorkTokenizedBuffer::token_count"], timeout=900, mem=10)
H("buf_refines_shadow_insert", BUF, ["C02", "C18"], cfgs=("macro_sep",), bound="3 tokens, 2 lines; insert index and token symbolic",
  funcs=["WorkTokenizedBuffer::insert_token", "WorkTokenizedBuffer::iter_token_infos"], timeout=900, mem=12)
H("buf_add_token_nightly_full", BUF, ["C19", "C02"], bound="vector at capacity (push_within_capacity fails), token symbolic", funcs=["WorkTokenizedBuffer::add_token"], timeout=300, mem=6)
H("buf_add_token_nightly_spare", BUF, ["C19", "C02"], bound="spare capacity, token symbolic", funcs=["WorkTokenizedBuffer::add_token"], timeout=300, mem=6)
for nm, tier, tmo in (("n1", "quick", 600), ("n2l1", "thorough", 600), ("n2", "quick", 600), ("n3l2", "thorough", 900), ("n3", "quick", 900)):
    H(f"buf_bulk_vs_accessors_{nm}", BUF, ["C05", "C17"], tier=tier, bound=f"detached buffer {nm}: exactly that many tokens(n)/lines(l), offsets < 1000, BOM or not",
      funcs=["TokenizedBuffer::into_resolved_token_vec", "TokenizedBuffer::get_token_*"], assumes=["buffer satisfies the representation invariant established by C02-C04 (DESIGN.md 4.C05)"], timeout=tmo, mem=10)
    H(f"buf_accessors_total_{nm}", BUF, ["C02", "C03", "C04"], tier=tier, bound=f"detached buffer {nm}", funcs=["TokenizedBuffer::get_token_*"],
      assumes=["buffer satisfies the representation invariant established by C02-C04"], timeout=tmo, mem=10)
H("twin_buf_bulk_vs_accessors", BUF, ["C05"], expect="twin", bound="n2", funcs=["TokenizedBuffer::into_resolved_token_vec"], timeout=300, mem=6)
H("buf_line_col_vs_text_k3", BUF, ["C04", "C17", "C02", "C03"], bound="text of <= 3 code points (UTF-8 length and line-feed flag symbolic), optional BOM, 2 symbolic cut points", funcs=["TokenizedBuffer::get_token_start_line", "TokenizedBuffer::get_token_end_line", "TokenizedBuffer::get_token_start_column", "TokenizedBuffer::get_token_end_column", "TokenizedBuffer::line_count"], timeout=600, mem=8)
H("buf_line_col_vs_text_k5", BUF, ["C04", "C17", "C02", "C03"], bound="text of <= 5 code points", funcs=["TokenizedBuffer::get_token_*line*", "TokenizedBuffer::get_token_*column*"], timeout=900, mem=8)
H("buf_into_detached", BUF, ["C02", "C03", "C04"], bound="fixed 3-char multi-byte source; line/EOF presence symbolic", funcs=["WorkTokenizedBuffer::into_detached"], timeout=300, mem=6)
H("buf_checkpoint_rollback", BUF, ["C01", "C02", "C03", "C04", "C06", "C07", "C09", "C10", "C11", "C13", "C14", "C15"], bound="2 tokens, 2 lines, 2 literal bytes + symbolic speculative additions", funcs=["WorkTokenizedBuffer::checkpoint", "WorkTokenizedBuffer::rollback"], timeout=600, mem=8)

# ---------------------------------------------------------------------------------------------
# lexer.rs (mod.rs) — lexer-level harnesses use the shadow buffer and the deterministic XID stand-ins
SHS = ["WorkTokenizedBuffer::* -> shadow buffer (contract proved by buf_refines_shadow_*)", "Lexer::emit_error/push_mode -> spare-capacity append"]
XID = ["unicode_ident::is_xid_start/continue -> fixed surrogate predicate on non-ASCII (exact on ASCII)"]
COMMON = ["C01", "C02", "C03", "C04", "C09"]

def LXH(name, props, tier, bound, funcs, timeout, mem=14, cfgs=("debug",), stubs=(), fixed="", contexts=None, weight=None, expect="pass"):
    H(name, LEX, props, tier=tier, cfgs=cfgs, bound=bound, funcs=funcs, stubs=list(SHS) + list(stubs), timeout=timeout, mem=mem,
      decoder="txt", contexts=contexts, weight=weight, expect=expect)
    HARNESSES[-1]["fixed"] = fixed

LXH("lx_ws_k2", COMMON + ["C06", "C11"], "quick", "<= 2 code points, first is whitespace", ["Lexer::lex_ws", "Lexer::add_line", "Lexer::emit_token"], 600, cfgs=("debug", "nodebug"), contexts=["default"])
LXH("lx_ws_k3", COMMON + ["C06", "C11"], "quick", "<= 3 code points", ["Lexer::lex_ws"], 1200, contexts=["default"])
LXH("lx_cstyle_comment_k4", COMMON + ["C06", "C11", "C19"], "quick", "'/*' + <= 2 code points", ["Lexer::lex_cstyle_comment"], 900, cfgs=("debug", "nodebug"), fixed="/*", contexts=["default", "eval"])
LXH("lx_cstyle_comment_k5", COMMON + ["C06", "C11", "C19"], "quick", "'/*' + <= 3 code points", ["Lexer::lex_cstyle_comment"], 1800, cfgs=("debug", "nodebug"), fixed="/*", contexts=["default", "eval"])
LXH("lx_macro_comment_k4", COMMON + ["C06"], "quick", "'%*' + <= 2 code points", ["Lexer::lex_macro_comment"], 900, fixed="%*", contexts=["default", "arg_value"])
LXH("lx_macro_comment_k5", COMMON + ["C06"], "quick", "'%*' + <= 3 code points", ["Lexer::lex_macro_comment"], 1800, fixed="%*", contexts=["default", "arg_value"])
HEXS = ["hex::parse_sas_hex_string -> arbitrary Ok/Err (decoding excluded from C07)"]
LXH("lx_single_quoted_k3", COMMON + ["C06", "C07", "C11", "C16"], "quick", "quote + <= 2 code points", ["Lexer::lex_single_quoted_str", "Lexer::resolve_string_literal_ending", "Lexer::resolve_string_literal_payload", "Lexer::add_string_literal_from_src"], 1200, stubs=HEXS, fixed="'", contexts=["quote", "eval", "arg_value"])
LXH("lx_single_quoted_esc_k5", COMMON + ["C06", "C07", "C16"], "quick", "quote + escaped quote + <= 2 code points", ["Lexer::lex_single_quoted_str", "Lexer::resolve_string_literal_ending", "Lexer::resolve_string_literal_payload"], 1500, stubs=HEXS, fixed="'''", contexts=["quote", "eval"])
LXH("lx_single_quoted_k4", COMMON + ["C06", "C07", "C11", "C16"], "quick", "quote + <= 3 code points", ["Lexer::lex_single_quoted_str"], 2400, stubs=HEXS, fixed="'", contexts=["quote", "eval", "arg_value"])
LXH("lx_single_quoted_k6", COMMON + ["C06", "C07", "C11", "C16"], "thorough", "quote + <= 5 code points", ["Lexer::lex_single_quoted_str"], 7200, mem=24, stubs=HEXS, fixed="'", contexts=["quote", "eval", "arg_value"])
for k, tier, tmo in ((2, "quick", 900), (3, "thorough", 2400), (4, "thorough", 7200)):
    LXH(f"lx_unrestricted_k{k}", COMMON + ["C06", "C13", "C14"], tier, f"1 dispatcher-consumed char + <= {k-1} code points", ["Lexer::lex_macro_string_unrestricted", "is_macro_amp", "is_macro_percent"], tmo, stubs=XID, contexts=["semi_text"], mem=20 if k == 4 else 14)
    LXH(f"lx_stat_opts_string_k{k}", COMMON + ["C06", "C13", "C14"], tier, f"1 dispatcher-consumed char + <= {k-1} code points", ["Lexer::lex_macro_string_stat_opts"], tmo, stubs=XID, contexts=["stat_opts"], mem=20 if k == 4 else 14)
    LXH(f"lx_arg_value_scan_k{k}", COMMON + ["C06", "C13"], tier, f"<= {k} code points; pnl any u32; flags symbolic", ["Lexer::lex_macro_string_in_macro_call_arg_value"], tmo + 600, stubs=XID, contexts=["arg_value"], mem=20 if k == 4 else 14)
    LXH(f"lx_str_call_scan_k{k}", COMMON + ["C06", "C07", "C13"], tier, f"<= {k} code points; pnl any u32; mask symbolic", ["Lexer::lex_macro_string_in_str_call", "Lexer::resolve_string_literal_payload"], tmo + 1200, stubs=XID, contexts=["str_call"], mem=24 if k >= 3 else 16)
LXH("lx_str_call_scan_esc_k3", COMMON + ["C06", "C07", "C13"], "thorough", "'%(' + <= 1 code point", ["Lexer::lex_macro_string_in_str_call"], 3000, stubs=XID, fixed="%(", contexts=["str_call"], mem=20)
FIN = ["Lexer::finalize_lexing", "Lexer::lex_expected_token", "Lexer::handle_unterminated_str_expr", "Lexer::update_last_token"]
for nm, tier in (("str_expect_eval_p0", "quick"), ("str_expect_eval_p2", "quick"), ("while_p1", "quick"), ("str_call_p2", "quick"), ("let_p0", "quick"), ("do_p0", "quick"),
                 ("if_paren_p1", "quick"), ("if_paren_p2", "thorough"), ("scan_p1", "quick"), ("copy_p0", "quick"), ("nested_str_p0", "quick")):
    LXH(f"lx_finalize_{nm}", ["C01", "C02", "C09", "C10", "C14"], tier, "end of input; stack shape constant, mode parameters (flags, booleans) symbolic; look-behind token symbolic", FIN, 1200, contexts=["eof"])
    HARNESSES[-1]["decoder"] = None
LXH("twin_lx_finalize", ["C10", "C14"], "quick", "end of input", FIN, 600, expect="twin")
HARNESSES[-1]["decoder"] = None
LXH("lx_token_expect_symbol", COMMON + ["C06", "C14"], "quick", "<= 2 code points; expected type/channel symbolic", ["Lexer::lex_token", "Lexer::lex_expected_token"], 600, contexts=["eval"])
LXH("lx_token_expect_semi", COMMON + ["C06", "C14"], "quick", "<= 2 code points", ["Lexer::lex_token"], 600, contexts=["default"])
LXH("lx_token_ws_only", COMMON + ["C06", "C13", "C14"], "quick", "<= 3 code points", ["Lexer::lex_token", "Lexer::lex_ws", "Lexer::lex_cstyle_comment"], 900, contexts=["eval"])
LXH("lx_token_make_checkpoint", COMMON + ["C07"], "quick", "<= 2 code points", ["Lexer::lex_token", "Lexer::checkpoint"], 600, contexts=["arg_or_value"])
LXH("lx_token_macro_def_name", COMMON + ["C06"], "quick", "<= 3 code points", ["Lexer::lex_token", "Lexer::lex_macro_def_identifier"], 600, contexts=["default"])
PRE = ["Lexer::dispatch_macro_call_or_stat", "Lexer::expect_* (all)", "Lexer::maybe_expect_macro_call_args_or_label", "needs_macro_sep"]
LXH("lx_preload_default", ["C01", "C06", "C10", "C14", "C15", "C11", "C18", "C09"], "quick", "keyword symbolic over all 91 TokenTypeMacroCallOrStat variants; look-behind type, nesting level, pending flags symbolic", PRE, 900, cfgs=("debug", "macro_sep"), contexts=["default"])
HARNESSES[-1]["decoder"] = None
LXH("lx_preload_in_arg_value", ["C01", "C06", "C10", "C14", "C18"], "quick", "same, keyword met inside a macro call argument (no MacroSep)", PRE, 900, cfgs=("macro_sep",), contexts=["arg_value"])
HARNESSES[-1]["decoder"] = None
LXH("lx_maybe_args_or_label", COMMON + ["C10", "C13", "C14", "C15", "C18"], "quick", "<= 3 code points after a macro identifier (optional whitespace run, then any char)", ["Lexer::lex_maybe_macro_call_args_or_label", "Lexer::rollback", "Lexer::checkpoint", "Lexer::lex_ws"], 900, cfgs=("debug", "macro_sep"), contexts=["after_ident"])
LXH("lx_label_sep", ["C18", "C10", "C05", "C04", "C01"], "quick", "<= 2 code points (optional whitespace, ':'); look-behind type symbolic", ["Lexer::lex_maybe_macro_call_args_or_label (label arm, macro_sep)", "needs_macro_sep"], 900, cfgs=("macro_sep",),
    stubs=["WorkTokenizedBuffer::insert_token -> shadow (buf_refines_shadow_insert)", "real token vector mirrors the shadow for iter_token_infos"], contexts=["after_ident"])


NUMS = ["numeric::try_parse_decimal / try_parse_hex_integer -> arbitrary result within their contract (length inside the numeric prefix, any type, optional error); integer paths checked by num_*_spec"]
LXH("lx_numeric_literal", COMMON + ["C06", "C08", "C16", "C11"], "quick", "<= 4 code points starting with a digit or '.digit'", ["Lexer::lex_numeric_literal"], 900, stubs=NUMS, contexts=["default", "quote"])
RES = ["macro::get_macro_resolve_ops_from_amps -> set bits of the count (mac_resolve_ops_spec)"]
LXH("lx_macro_var_expr_k3", ["C01", "C02", "C03", "C06", "C13"], "thorough", "'&' + <= 2 ASCII chars", ["Lexer::lex_macro_var_expr"], 3600, stubs=XID + RES, fixed="&", contexts=["default", "semi_text", "str_expr"], mem=20)
LXH("lx_macro_var_expr_k4", ["C01", "C02", "C03", "C06", "C13"], "thorough", "'&' + <= 3 ASCII chars", ["Lexer::lex_macro_var_expr"], 7200, stubs=XID + RES, fixed="&", contexts=["default", "semi_text", "str_expr"], mem=24)
LXH("lx_macro_var_expr_cont_k6", ["C01", "C02", "C03", "C06"], "thorough", "'&a&&&' + <= 1 ASCII char", ["Lexer::lex_macro_var_expr"], 7200, stubs=XID + RES, fixed="&a&&&", contexts=["default", "semi_text"], mem=24)
LXH("lx_new_bom", ["C02", "C03", "C04", "C15", "C17", "C01"], "quick", "<= 3 code points, first symbolic (may be U+FEFF)", ["Lexer::new", "Cursor::eat_char"], 600, stubs=["WorkTokenizedBuffer::new -> concrete capacities"], contexts=["default"])
HARNESSES[-1]["decoder"] = None
LXH("lx_str_expr_text_eof", ["C01", "C02", "C03", "C04", "C09", "C10"], "thorough", "<= 1 code point then end of input; optional extra token on any channel", ["Lexer::lex_str_expr_text", "Lexer::handle_unterminated_str_expr", "Lexer::update_last_token"], 3600, stubs=XID + HEXS, contexts=["str_expr"], mem=20)
ARM = ["Lexer::dispatch_macro_call_or_stat -> unreachable (followers assumed not to start a macro call)"] + XID + RES + HEXS
for nm, fn, ctx, first in (("semi_text_arm_nl", "dispatch_macro_semi_term_text_expr", "semi_text", "\n"), ("semi_text_arm_percent", "dispatch_macro_semi_term_text_expr", "semi_text", "%"),
                           ("semi_text_arm_slash", "dispatch_macro_semi_term_text_expr", "semi_text", "/"), ("stat_opts_arm_percent", "dispatch_macro_stat_opts_text_expr", "stat_opts", "%"),
                           ("arg_value_arm_nl", "dispatch_macro_call_arg_value", "arg_value", "\n"), ("arg_value_arm_percent", "dispatch_macro_call_arg_value", "arg_value", "%"),
                           ("arg_value_arm_comma", "dispatch_macro_call_arg_value", "arg_value", ","), ("arg_value_arm_rparen", "dispatch_macro_call_arg_value", "arg_value", ")"),
                           ("str_call_arm_nl", "dispatch_macro_str_quoted_expr", "str_call", "\n"), ("str_call_arm_slash", "dispatch_macro_str_quoted_expr", "str_call", "/"),
                           ("str_call_arm_rparen", "dispatch_macro_str_quoted_expr", "str_call", ")")):
    LXH(f"lx_{nm}", COMMON + ["C06", "C13"], "thorough", f"first char {first!r} (constant) + <= 2 code points; pnl any u32; flags symbolic", [f"Lexer::{fn}"], 3600, stubs=ARM, fixed=first, contexts=[ctx], mem=20)
LXH("lx_semi_text_arm_semi", COMMON + ["C06", "C14"], "quick", "';' + <= 2 code points", ["Lexer::dispatch_macro_semi_term_text_expr"], 600, stubs=ARM, fixed=";", contexts=["semi_text"])
LXH("lx_stat_opts_arm_assign", COMMON + ["C06"], "quick", "'=' + <= 2 code points", ["Lexer::dispatch_macro_stat_opts_text_expr"], 900, stubs=ARM, fixed="=", contexts=["stat_opts"])
for nm, fn, ctx, first in (("semi_text_arm_nl_k2", "dispatch_macro_semi_term_text_expr", "semi_text", "\n"), ("semi_text_arm_percent_k2", "dispatch_macro_semi_term_text_expr", "semi_text", "%"),
                           ("arg_value_arm_nl_k2", "dispatch_macro_call_arg_value", "arg_value", "\n"), ("str_call_arm_nl_k2", "dispatch_macro_str_quoted_expr", "str_call", "\n"),
                           ("stat_opts_arm_percent_k2", "dispatch_macro_stat_opts_text_expr", "stat_opts", "%")):
    LXH(f"lx_{nm}", COMMON + ["C06", "C13"], "thorough", f"first char {first!r} (constant) + <= 1 code point", [f"Lexer::{fn}"], 2400, stubs=ARM, fixed=first, contexts=[ctx], mem=16)
LXH("lx_eval_string_k3", COMMON + ["C06", "C08", "C13"], "thorough", "<= 3 code points; flags, pnl symbolic", ["Lexer::lex_macro_string_in_macro_eval_context"], 3000, stubs=XID + NUMS + ["macro::is_macro_stat -> arbitrary bool (phf lookup)"], contexts=["eval"], mem=20)
LXH("lx_eval_string_lite_n3", COMMON + ["C06", "C13"], "quick", "exactly 3 ASCII characters at constant byte positions; flags constant (%if-like: ends at ';'), depth 0; numeric parsers answer None", ["Lexer::lex_macro_string_in_macro_eval_context"], 2400, stubs=XID + ["numeric::try_parse_decimal / try_parse_hex_integer -> None (operands stay text; numeric recognition is lx_eval_string_k2/k3)", "macro::is_macro_stat -> arbitrary bool (phf lookup)"], contexts=["eval"], mem=16)
LXH("lx_eval_string_k2", COMMON + ["C06", "C08", "C13"], "thorough", "<= 2 code points; flags, pnl symbolic", ["Lexer::lex_macro_string_in_macro_eval_context"], 1500, stubs=XID + NUMS + ["macro::is_macro_stat -> arbitrary bool (phf lookup)"], contexts=["eval"], mem=16)
DEAD = ["sub-lexers of other first-character arms -> unreachable"]
LXH("lx_default_star", COMMON + ["C06", "C11"], "quick", "'*' + <= 2 code points; macro nesting 0/1, pending flag symbolic", ["Lexer::dispatch_mode_default", "Lexer::lex_symbols", "Lexer::lex_predicted_comment", "Lexer::rollback"], 900, stubs=DEAD + XID, fixed="*", contexts=["default", "in_macro"])
LXH("lx_default_symbol", COMMON + ["C06", "C11"], "quick", "<= 2 code points, first of the symbol/unknown class", ["Lexer::dispatch_mode_default", "Lexer::lex_symbols"], 900, stubs=DEAD + XID, contexts=["default"])
KWS = ["token_type::parse_keyword -> None (the datalines words are not keywords)"]
LXH("lx_datalines_cards_k6", COMMON + ["C06", "C10", "C11", "C16"], "thorough", "'cArds' + <= 1 code point; previous default token ';' or not", ["Lexer::lex_identifier", "Lexer::lex_datalines"], 5400, stubs=KWS + XID, fixed="cArds", contexts=["default"], mem=24)
LXH("lx_datalines_cards", COMMON + ["C06", "C10", "C11", "C16"], "thorough", "'cArds' + <= 2 code points", ["Lexer::lex_identifier", "Lexer::lex_datalines"], 10800, stubs=KWS + XID, fixed="cArds", contexts=["default"], mem=28)
LXH("lx_str_expr_percent_k4", COMMON + ["C06", "C07", "C10"], "thorough", "'%' + <= 3 code points inside a string expression", ["Lexer::dispatch_mode_str_expr", "Lexer::lex_str_expr_text", "Lexer::resolve_string_literal_payload"], 3600, stubs=XID + HEXS + ["Lexer::lex_macro_identifier -> unreachable"], fixed="%", contexts=["str_expr"], mem=20)

# ---------------------------------------------------------------------------------------------
# lexer2.rs: eval dispatcher, argument name/value disambiguation, definition lists, double-quoted strings,
# identifiers / keywords, open-code classification, %do / %local look-ahead, name expressions
EV = ["Lexer::dispatch_mode_macro_eval", "Lexer::lex_macro_eval_operator", "Lexer::maybe_emit_empty_macro_string_in_eval", "is_macro_eval_mnemonic"]
EVS = ["sub-lexers of the quote / comment / macro-trigger arms -> unreachable (first char assumed outside them)",
       "Lexer::lex_macro_string_in_macro_eval_context -> contract stand-in: consumes one char, emits the operand text token (real scanner: lx_eval_string_k3)"]
LXH("lx_eval_dispatch_ops", COMMON + ["C06", "C13", "C16"], "quick", "<= 4 code points, first char any except ' \" / & %; flags, pnl (any u32), look-behind token type symbolic", EV, 1200, stubs=EVS + XID, contexts=["eval"])
LXH("lx_eval_percent_op", COMMON + ["C06", "C13"], "quick", "'%' + <= 2 code points (not a name start); flags, pnl symbolic", EV + ["Lexer::lex_macro_call"], 1200, stubs=EVS + XID, fixed="%", contexts=["eval"])
AOV = ["Lexer::dispatch_macro_call_arg_or_value", "Lexer::checkpoint", "Lexer::rollback", "Lexer::clear_checkpoint"]
AOS = ["Lexer::lex_macro_var_expr / lex_macro_identifier -> unreachable (first char constant, not a macro trigger)"]
for nm, c in (("name", "a"), ("assign", "="), ("comma", ","), ("rparen", ")"), ("space", " "), ("quote", "'"), ("digit", "1"), ("slash", "/")):
    LXH(f"lx_arg_or_value_first_{nm}", COMMON + ["C06", "C13"], "quick", f"first char {c!r} (constant) + <= {2 if nm == 'name' else 1} code points; flags symbolic; no checkpoint, look-behind '(' or ','", AOV, 600, stubs=AOS + XID, fixed=c, contexts=["arg_or_value"], mem=10)
for nm, c in (("assign", "="), ("comma", ","), ("rparen", ")"), ("space", " "), ("quote", '"'), ("slash", "/"), ("percent", "%")):
    LXH(f"lx_arg_or_value_named_{nm}", COMMON + ["C06", "C13"], "quick", f"'a' then {c!r} (constants) + <= 1 code point; the name token and its checkpoint come from the real first step; flags symbolic", AOV, 600, stubs=AOS + XID, fixed="a" + c, contexts=["arg_or_value"], mem=10)
LXH("lx_arg_or_value_named_mcomment", COMMON + ["C06", "C13"], "quick", "'a' then '%*' (constants) + <= 2 code points: a macro comment after a possible argument name", AOV + ["Lexer::lex_macro_comment"], 600, stubs=AOS + XID, fixed="a%*", contexts=["arg_or_value"], mem=10)
LXH("lx_maybe_arg_assign", COMMON + ["C13"], "quick", "'a' + <= 2 code points (optional whitespace run, then any char); flags symbolic", ["Lexer::lex_maybe_macro_call_arg_assign", "Lexer::rollback", "Lexer::lex_ws"], 600, fixed="a", contexts=["arg_or_value"], mem=10)
LXH("lx_maybe_tail_arg", COMMON + ["C13", "C14"], "quick", "<= 2 code points", ["Lexer::lex_maybe_tail_macro_call_arg_value"], 600, contexts=["eval"], mem=10)
LXH("lx_macro_def_args", COMMON + ["C06", "C13", "C14"], "quick", "<= 3 code points; the three definition-list modes", ["Lexer::lex_maybe_macro_def_args", "Lexer::dispatch_macro_def_arg", "Lexer::lex_macro_def_next_arg_or_default_value", "Lexer::lex_macro_def_identifier"], 600, contexts=["default"], mem=10)
SE = ["Lexer::dispatch_mode_str_expr", "Lexer::lex_str_expr_text", "Lexer::lex_double_quoted_literal", "Lexer::handle_unterminated_str_expr", "Lexer::resolve_string_literal_payload", "Lexer::resolve_string_literal_ending", "Lexer::update_last_token"]
SES = ["Lexer::lex_macro_identifier -> unreachable; Lexer::lex_macro_var_expr -> false (first char assumed not to start a macro trigger)"] + HEXS
SEP = COMMON + ["C06", "C07", "C10", "C11", "C16"]
LXH("lx_str_expr_text_plain_k3", SEP, "thorough", "plain literal: 'a' + <= 2 code points", SE, 3600, stubs=SES + XID, contexts=["quote"], mem=20)
LXH("lx_str_expr_text_expr_k3", SEP, "thorough", "genuine string expression (a macro variable or hidden token precedes): 'a' + <= 2 code points", SE, 3600, stubs=SES + XID, contexts=["str_expr"], mem=20)
LXH("lx_str_expr_quote_plain_k3", SEP, "thorough", "plain literal: '\"' + <= 2 code points (empty literal with suffix, or escaped quote first)", SE, 3600, stubs=SES + XID, fixed='"', contexts=["quote"], mem=20)
LXH("lx_str_expr_quote_expr_k3", SEP, "thorough", "genuine string expression: '\"' + <= 2 code points (closing quote with suffix, or escaped quote first)", SE, 3600, stubs=SES + XID, fixed='"', contexts=["str_expr"], mem=20)
LXH("lx_str_expr_percent_k3", COMMON + ["C06", "C07", "C10"], "thorough", "plain literal: '%' (no name start after it) + <= 2 code points", SE, 3600, stubs=SES + XID, fixed="%", contexts=["quote"], mem=20)
LXH("lx_str_expr_amp_k3", COMMON + ["C06", "C07", "C10"], "thorough", "genuine string expression: '&' run that is no macro trigger, <= 3 code points", SE, 3600, stubs=SES + XID, fixed="&", contexts=["str_expr"], mem=20)
LXH("lx_str_expr_percent_ascii_n3", COMMON + ["C06", "C07", "C10"], "quick", "plain literal: '%' + exactly 2 ASCII characters at constant byte positions (the dispatcher-consumed '%' belongs to the text and payload)", SE, 2400, stubs=SES + XID, fixed="%", contexts=["quote"], mem=16)
LXH("lx_plumbing_marks", ["C01", "C02", "C03", "C04", "C09"], "quick", "exactly 3 code points; two or three tokens emitted at the pending start / at a saved mark, one error", ["Lexer::start_token", "Lexer::mark_token_start", "Lexer::emit_token", "Lexer::emit_token_at_mark", "Lexer::prep_error_info_at_cur_offset"], 300, contexts=["eval"], mem=8)
LXH("lx_unterminated_str_direct", ["C01", "C02", "C03", "C04", "C06", "C07", "C09", "C10"], "quick", "end of input; payload handed over by the text scanner symbolic; look-behind (start token last / another token on any channel) symbolic", ["Lexer::handle_unterminated_str_expr", "Lexer::update_last_token"], 300, contexts=["str_expr"], mem=8)
HARNESSES[-1]["decoder"] = None
LXH("lx_double_quoted_literal_direct", ["C01", "C02", "C03", "C04", "C06", "C07", "C10", "C11", "C16"], "quick", "closing quote + <= 2 code points of suffix; payload handed over symbolic", ["Lexer::lex_double_quoted_literal", "Lexer::resolve_string_literal_ending", "Lexer::update_last_token"], 300, stubs=HEXS, fixed='"', contexts=["quote"], mem=8)
LXH("lx_str_expr_start", ["C01", "C02", "C03", "C04", "C06", "C10"], "quick", "'\"' + <= 1 code point", ["Lexer::lex_string_expression_start"], 300, fixed='"', contexts=["default"], mem=8)
DLF = ["Lexer::lex_datalines", "Cursor::advance_by"]
for _nm, _bound, _fx, _tmo in (("lx_datalines_ascii_vt_n2", "'cArds' + a vertical tab (whitespace that is not ASCII whitespace, constant) + 1 ASCII character", "cArds\x0b", 600),
                              ("lx_datalines_ascii_semi_n2", "'cArds;' (constant) + 1 ASCII character of data / terminator", "cArds;", 600),
                              ("lx_datalines_ascii_semi_n3", "'cArds;' (constant) + 2 ASCII characters", "cArds;", 600),
                              ("lx_datalines_ascii_semi_n4", "'cArds;' (constant) + 3 ASCII characters", "cArds;", 900),
                              ("lx_datalines4_ascii_semi_n3", "'cArds4;' (constant) + 2 ASCII characters (';;;;' terminator cannot complete)", "cArds4;", 600),
                              ("lx_datalines4_ascii_semi_n6", "'cArds4;' (constant) + 5 ASCII characters (data, ';;;;' terminator)", "cArds4;", 1200)):
    LXH(_nm, ["C01", "C02", "C03", "C04", "C06", "C09", "C10", "C11", "C15"], "quick", _bound + "; all byte positions constant; look-behind none / ';' / other, optional hidden token; non-zero base offset", DLF, _tmo, fixed=_fx, contexts=["default"], mem=10)
LXH("lx_datalines_ascii_n1", ["C01", "C02", "C03", "C04", "C06", "C09", "C10", "C11", "C15", "C17"], "quick", "'cArds' in the constant prefix + exactly 1 ASCII character (all byte positions constant); look-behind none / ';' / other, optional hidden token; non-zero base offset", DLF, 600, fixed="cArds", contexts=["default"], mem=10)
TDC = ["every sub-lexer of the dispatcher (quotes, comments, blanks, macro variable / call / comment, the mode's text scanner) -> recording stand-ins; lex_macro_call's outcome chosen by the harness; the scanners have their own harnesses"]
for nm, fn, ctx in (("semi_text", "dispatch_macro_semi_term_text_expr", "semi_text"), ("stat_opts", "dispatch_macro_stat_opts_text_expr", "stat_opts"), ("arg_value", "dispatch_macro_call_arg_value", "arg_value"), ("str_call", "dispatch_macro_str_quoted_expr", "str_call")):
    LXH(f"lx_{nm}_classifier", COMMON + ["C06", "C13", "C14"], "quick", "<= 4 code points, first char any; pnl any u32, flags / mask symbolic", [f"Lexer::{fn}"], 900, stubs=TDC + XID, contexts=[ctx], mem=10)
KWR = ["token_type::parse_keyword / parse_macro_keyword (phf, SipHash) -> recorder: stores its argument, returns a harness-chosen answer"]
LXH("lx_identifier_k4", COMMON + ["C06", "C11", "C16"], "quick", "<= 4 code points starting with a name start", ["Lexer::lex_identifier"], 900, stubs=KWR + XID + ["Lexer::lex_datalines -> assert(false) (words of <= 4 chars are not datalines keywords)"], contexts=["default"], mem=10)
DKR = ["Lexer::dispatch_macro_call_or_stat -> recorder (its table is checked by lx_preload_*)"]
LXH("lx_macro_identifier_k4", ["C01", "C03", "C06", "C16"], "quick", "'%' + <= 3 code points (name start first)", ["Lexer::lex_macro_identifier", "lex_macro_call_stat_or_label"], 900, stubs=KWR + DKR + XID, fixed="%", contexts=["default", "semi_text"], mem=10)
LXH("lx_macro_call_k3", ["C01", "C03", "C06", "C09", "C13"], "quick", "'%' + <= 2 code points; both flags symbolic", ["Lexer::lex_macro_call", "lex_macro_call_stat_or_label", "Cursor::advance_by"], 900, stubs=KWR + DKR + XID, fixed="%", contexts=["eval", "name_expr"], mem=10)
LXH("lx_symbols_table", COMMON + ["C06", "C11"], "quick", "<= 2 code points, first of the symbol/unknown class", ["Lexer::lex_symbols"], 900, stubs=DEAD + XID, contexts=["default"], mem=10)
LXH("lx_char_format_k5", COMMON + ["C06", "C11"], "quick", "'$' + <= 4 code points", ["Lexer::lex_symbols", "Lexer::lex_char_format", "Cursor::advance_by"], 1200, stubs=XID, fixed="$", contexts=["default"], mem=12, cfgs=("debug", "nodebug"))
CLS = ["all sub-lexers of dispatch_mode_default -> contract stand-ins that consume one char, emit one token of a type of theirs and record which one ran"]
LXH("lx_default_classifier", COMMON + ["C06", "C08", "C10", "C11"], "quick", "<= 3 code points, first char any; pending flag symbolic", ["Lexer::dispatch_mode_default", "Lexer::set_pending_stat"], 900, stubs=CLS + XID, contexts=["default"], mem=10)
LXH("lx_macro_do_arms", ["C01", "C02", "C03", "C04", "C09", "C11", "C14", "C15"], "quick", "<= 3 code points after %do; macro keyword lookup answer symbolic", ["Lexer::dispatch_macro_do", "lex_macro_call_stat_or_label", "Lexer::lex_macro_identifier"], 1200, stubs=KWR + DKR + XID, contexts=["after_do"], mem=12)
LXH("lx_macro_local_global_arms", ["C01", "C02", "C03", "C04", "C09", "C14"], "quick", "<= 2 code points after %local/%global", ["Lexer::dispatch_macro_local_global", "Lexer::expect_macro_let_stat"], 600, contexts=["default"], mem=8)
NES = ["Lexer::lex_macro_call / lex_macro_var_expr -> contract stand-ins (arbitrary outcome; a call/variable consumes two chars and emits one token)", "Lexer::lex_cstyle_comment -> one-char comment stand-in"]
LXH("lx_name_expr_arms", COMMON + ["C06", "C14"], "quick", "<= 3 code points; found-name flag and the statement's error kind symbolic", ["Lexer::dispatch_macro_name_expr"], 900, stubs=NES + XID, contexts=["name_expr"], mem=10)

# ---------------------------------------------------------------------------------------------
# macro.rs / lexer_mode.rs / numeric.rs leaves
H("mac_mnemonic_case_and_shape", MAC, ["C16", "C13", "C06"], bound="<= 4 chars, all case flips symbolic", funcs=["is_macro_eval_mnemonic"], stubs=XID, timeout=600, mem=8)
H("sep_predicate_spec", MAC, ["C18"], cfgs=("macro_sep",), bound="all (previous type or none, token type) pairs", funcs=["needs_macro_sep", "is_macro_stat_tok_type"], timeout=300, mem=6)
H("mac_resolve_ops_spec", MAC, ["C06"], tier="thorough", bound="ampersand count 1..=255", funcs=["get_macro_resolve_ops_from_amps"], timeout=1800, mem=10)
H("mac_is_macro_amp_spec", MAC, ["C13", "C06"], bound="<= 5 chars", funcs=["is_macro_amp"], stubs=XID, timeout=300, mem=6)
H("flags_roundtrip", LMO, ["C13", "C14"], bound="all flag combinations", funcs=["MacroEvalExprFlags::*", "MacroArgNameValueFlags::*"], timeout=300, mem=6)
H("num_int_spec_n3", NUM, ["C08"], bound="<= 3 ASCII bytes", funcs=["try_parse_decimal (integer mode)", "lexical::parse_partial_with_options::<u64>"], timeout=600, mem=10)
H("num_int_spec_n5", NUM, ["C08"], tier="thorough", bound="<= 5 ASCII bytes", funcs=["try_parse_decimal (integer mode)"], timeout=3600, mem=16)
H("num_hex_spec_n3", NUM, ["C08", "C16"], bound="<= 3 ASCII bytes, all case flips symbolic", funcs=["try_parse_hex_integer"], timeout=1200, mem=10)
H("num_hex_spec_n4", NUM, ["C08", "C16"], tier="thorough", bound="<= 4 ASCII bytes", funcs=["try_parse_hex_integer"], timeout=3600, mem=16)


# C19: the same functional contracts in the release-like configuration (debug assertions compiled out):
# a side effect hidden inside a debug assertion, or a debug-only branch, shows as a failed contract there.
for _n in ("lx_macro_call_k3", "lx_eval_dispatch_ops", "lx_eval_percent_op", "lx_datalines_ascii_n1", "lx_double_quoted_literal_direct", "lx_token_expect_symbol", "lx_token_expect_semi", "lx_token_ws_only", "lx_token_macro_def_name", "lx_numeric_literal",
           "lx_macro_comment_k4", "lx_default_star", "lx_default_symbol", "lx_maybe_args_or_label", "lx_new_bom", "lx_single_quoted_k3"):
    _h = by_name(_n) if "by_name" in globals() else None
    for _x in HARNESSES:
        if _x["name"] == _n:
            if "nodebug" not in _x["cfgs"]:
                _x["cfgs"].append("nodebug")
            if "C19" not in _x["props"]:
                _x["props"].append("C19")


# ---------------------------------------------------------------------------------------------
# Quick tier under a wall-clock budget.  A quick check is stopped by its caller after 900 s, so the quick tier of
# a property is a *budgeted selection* of (harness, configuration) queries: the queries for which the property is
# PRIMARY always run; the other quick queries carrying the property's tag fill the remaining budget in an order
# rotated by VERIF_SEED (different seeds exercise different secondary queries).  Nothing is skipped silently:
# the evidence lists what was left out for the budget, and the thorough tier runs everything.

# measured wall seconds per query (codegen + solve) on this 16-core box, a few jobs in parallel
COST = {
    "cur_": 32, "twin_cur_advance_by": 25, "buf_refines_shadow_mutators": 60, "buf_refines_shadow_observers": 45, "buf_refines_shadow_insert": 60,
    "buf_add_token_nightly_full": 25, "buf_add_token_nightly_spare": 25, "buf_bulk_vs_accessors_n1": 30, "buf_bulk_vs_accessors_n2": 60,
    "buf_bulk_vs_accessors_n3": 200, "buf_accessors_total_n1": 20, "buf_accessors_total_n2": 20, "buf_accessors_total_n3": 22, "twin_buf_bulk_vs_accessors": 25,
    "buf_line_col_vs_text_k3": 22, "buf_line_col_vs_text_k5": 26, "buf_into_detached": 25, "buf_checkpoint_rollback": 40,
    "lx_ws_k2": 40, "lx_ws_k3": 45, "lx_cstyle_comment_k4": 60, "lx_cstyle_comment_k5": 84, "lx_macro_comment_k4": 39, "lx_macro_comment_k5": 55, "lx_single_quoted_k3": 103, "lx_single_quoted_k4": 162, "cur_advance_by_k3": 63, "cur_advance_k3": 45, "cur_eat_char_k3": 40, "cur_eat_while_k3": 37, "cur_peek_k3": 40, "lx_single_quoted_esc_k5": 161,
    "lx_unrestricted_k2": 146, "lx_str_call_scan_k2": 456, "lx_str_expr_percent_ascii_n3": 545, "lx_stat_opts_string_k2": 134, "lx_arg_value_scan_k2": 259, "lx_finalize_": 280, "twin_lx_finalize": 60,
    "lx_token_expect_symbol": 100, "lx_token_expect_semi": 80, "lx_token_ws_only": 127, "lx_token_make_checkpoint": 87, "lx_token_macro_def_name": 100,
    "lx_preload_default": 126, "lx_preload_in_arg_value": 120, "lx_maybe_args_or_label": 78, "lx_label_sep": 65, "lx_numeric_literal": 50,
    "lx_new_bom": 30, "lx_semi_text_arm_semi": 35, "lx_stat_opts_arm_assign": 35, "lx_eval_string_k2": 600, "lx_default_star": 78, "lx_default_symbol": 103,
    "mac_mnemonic_case_and_shape": 27, "sep_predicate_spec": 20, "mac_is_macro_amp_spec": 25, "flags_roundtrip": 20, "num_int_spec_n3": 48, "num_hex_spec_n3": 300,
    "lx_arg_or_value_first_": 36, "lx_arg_or_value_named_": 60, "lx_arg_or_value_named_percent": 98, "lx_arg_or_value_named_mcomment": 84, "lx_arg_value_classifier": 176, "lx_char_format_k5": 186,
    "lx_default_classifier": 90, "lx_double_quoted_literal_direct": 43, "lx_eval_dispatch_ops": 104, "lx_eval_string_lite_n3": 450, "lx_eval_percent_op": 143, "lx_identifier_k4": 98,
    "lx_macro_call_k3": 99, "lx_macro_def_args": 59, "lx_macro_do_arms": 146, "lx_macro_identifier_k4": 100, "lx_macro_local_global_arms": 36,
    "lx_maybe_arg_assign": 55, "lx_maybe_tail_arg": 21, "lx_name_expr_arms": 69, "lx_semi_text_classifier": 172, "lx_stat_opts_classifier": 168,
    "lx_str_call_classifier": 182, "lx_datalines_ascii_n1": 40, "lx_datalines_ascii_vt_n2": 30, "lx_datalines_ascii_semi_n2": 30, "lx_datalines_ascii_semi_n3": 59, "lx_datalines_ascii_semi_n4": 63, "lx_datalines4_ascii_semi_n3": 96, "lx_datalines4_ascii_semi_n6": 138, "lx_str_expr_start": 29, "lx_symbols_table": 93, "lx_unterminated_str_direct": 39, "lx_plumbing_marks": 40,
}


def cost(h):
    best = None
    for k, v in COST.items():
        if h["name"] == k or (k.endswith("_") and h["name"].startswith(k)):
            if best is None or len(k) > best[0]:
                best = (len(k), v)
    return best[1] if best else 120


# properties for which a quick harness is primary (always selected); prefix match on the harness name
PRIMARY = [
    ("cur_", ["C03"]), ("cur_advance_by", ["C03", "C19"]), ("twin_cur", ["C03", "C19"]),
    ("buf_refines_shadow_mutators", None), ("buf_refines_shadow_observers", None), ("buf_refines_shadow_insert", ["C02", "C18"]),
    ("buf_add_token_nightly", ["C19", "C02"]), ("buf_bulk_vs_accessors", ["C05", "C17"]), ("twin_buf", ["C05"]), ("buf_accessors_total", ["C02", "C03", "C04"]),
    ("buf_line_col_vs_text", ["C04", "C17", "C02", "C03"]), ("buf_into_detached", ["C02", "C03", "C04"]), ("buf_checkpoint_rollback", None),
    ("lx_ws_k2", ["C03"]), ("lx_ws_k3", ["C04", "C06", "C03", "C11"]), ("lx_cstyle_comment_k4", ["C03"]), ("lx_cstyle_comment_k5", ["C04", "C06", "C11"]), ("lx_macro_comment_k4", ["C03"]), ("lx_macro_comment_k5", ["C04", "C06"]),
    ("lx_single_quoted_k3", ["C04", "C11"]), ("lx_single_quoted_k4", ["C07", "C06", "C16"]), ("lx_single_quoted_esc_k5", ["C07", "C16"]),
    ("lx_unrestricted_k2", ["C13", "C06"]), ("lx_str_call_scan_k2", ["C07", "C13"]), ("lx_str_expr_percent_ascii_n3", ["C07"]), ("lx_stat_opts_string_k2", ["C13", "C14"]), ("lx_arg_value_scan_k2", ["C13", "C04"]),
    ("lx_finalize_", ["C10", "C14"]), ("lx_finalize_nested_str_p0", ["C10", "C14", "C01", "C09"]), ("lx_finalize_if_paren_p1", ["C10", "C14", "C02", "C09"]),
    ("lx_finalize_scan_p1", ["C10", "C14", "C01", "C02"]), ("twin_lx_finalize", ["C10", "C14"]),
    ("lx_token_expect_symbol", ["C14", "C09", "C06"]), ("lx_token_expect_semi", ["C14", "C09"]), ("lx_token_ws_only", ["C13", "C14", "C01"]),
    ("lx_token_make_checkpoint", ["C01", "C09", "C07"]), ("lx_token_macro_def_name", ["C06", "C01"]),
    ("lx_preload_default", ["C14", "C10", "C15", "C18", "C11"]), ("lx_preload_in_arg_value", ["C18", "C14"]),
    ("lx_maybe_args_or_label", ["C01", "C09", "C10", "C15", "C02", "C04", "C18", "C13"]), ("lx_label_sep", ["C18", "C05", "C10"]),
    ("lx_numeric_literal", ["C08", "C16", "C11"]), ("lx_new_bom", ["C17", "C02", "C15", "C03"]),
    ("lx_semi_text_arm_semi", ["C14"]), ("lx_stat_opts_arm_assign", ["C06"]),
    ("lx_default_star", ["C11", "C01"]), ("lx_default_symbol", ["C11"]),
    ("lx_eval_dispatch_ops", ["C13", "C16", "C06", "C01"]), ("lx_eval_string_lite_n3", ["C13", "C06"]), ("lx_eval_percent_op", ["C13", "C06"]),
    ("lx_arg_or_value_", ["C13", "C01", "C09"]), ("lx_maybe_arg_assign", ["C13", "C02", "C04", "C01"]), ("lx_maybe_tail_arg", ["C13", "C14"]),
    ("lx_macro_def_args", ["C13", "C14", "C09"]), ("lx_unterminated_str_direct", ["C10", "C07", "C09", "C06"]), ("lx_plumbing_marks", ["C02", "C03", "C04", "C09"]), ("lx_double_quoted_literal_direct", ["C07", "C10", "C16", "C11", "C06"]),
    ("lx_str_expr_start", ["C10"]), ("lx_identifier_k4", ["C16", "C06", "C11"]), ("lx_macro_identifier_k4", ["C16", "C06", "C03"]),
    ("lx_macro_call_k3", ["C03", "C06", "C13", "C09", "C01"]), ("lx_symbols_table", ["C11", "C06"]), ("lx_char_format_k5", ["C11", "C03", "C06"]),
    ("lx_default_classifier", ["C11", "C01", "C08", "C10"]), ("lx_semi_text_classifier", ["C04", "C01", "C13", "C14"]), ("lx_stat_opts_classifier", ["C04", "C06", "C01", "C14"]),
    ("lx_arg_value_classifier", ["C13", "C04", "C01"]), ("lx_str_call_classifier", ["C13", "C04", "C01"]),
    ("lx_macro_do_arms", ["C14", "C01", "C15", "C09"]), ("lx_datalines_ascii_n1", ["C10", "C11", "C17", "C15", "C06", "C09"]), ("lx_datalines_ascii_", ["C10", "C11", "C06"]), ("lx_datalines4_ascii_", ["C10", "C11", "C06"]), ("lx_macro_local_global_arms", ["C14", "C01"]), ("lx_name_expr_arms", ["C14", "C09", "C01"]),
    ("mac_", None), ("sep_", None), ("flags_", None), ("num_", None),
]


def primary_props(h, cfg):
    """Properties for which the query (h, cfg) always runs in the quick tier."""
    best = None
    for k, v in PRIMARY:
        if h["name"].startswith(k) and (best is None or len(k) > best[0]):
            best = (len(k), v)
    props = list(h["props"]) if best is None or best[1] is None else [p for p in best[1] if p in h["props"]]
    if cfg == "nodebug" and not h["name"].startswith(("cur_", "twin_cur")):
        # the release-like configuration of a lexer harness is the subject of C19 only
        props = [p for p in props if p == "C19"] or (["C19"] if "C19" in h["props"] else [])
    if cfg == "macro_sep" and "C18" in h["props"] and len(h["cfgs"]) > 1:
        props = [p for p in props if p == "C18"] or ["C18"]
    return props


QUICK_BUDGET_S = 4200  # cpu-seconds of queries per property (about 5.5 min of wall time at 13 jobs)
SECONDARY_MAX_S = 200  # a query that fills the budget must be cheap


def quick_selection(pid, seed=0, budget=None, changed=None):
    """[(h, cfg)] selected for the quick tier of `pid`, and the list left out for the budget.
    `changed`: names of functions that differ from /repo's HEAD (and their callers): the secondary queries that
    encode one of them are taken first (and may cost up to 300 s), the rest fill the budget in the rotated order."""
    import os
    budget = budget if budget is not None else int(os.environ.get("VERIF_QUICK_BUDGET", QUICK_BUDGET_S))
    changed = set(changed or ())

    def touches(h):
        return any(f.split("::")[-1].split(" ")[0] in changed for f in h["funcs"])
    prim, sec = [], []
    for h in HARNESSES:
        if pid not in h["props"] or h["tier"] != "quick":
            continue
        for cfg in h["cfgs"]:
            (prim if pid in primary_props(h, cfg) else sec).append((h, cfg))
    total = sum(cost(h) for h, _ in prim)
    if sec:
        k = seed % len(sec)
        sec = sec[k:] + sec[:k]
    chosen, left = list(prim), []
    if changed:
        rel = [(h, cfg) for h, cfg in sec if touches(h)]
        sec = rel + [x for x in sec if x not in rel]
    for h, cfg in sec:
        if total + cost(h) <= budget and cost(h) <= (300 if changed and touches(h) else SECONDARY_MAX_S):
            chosen.append((h, cfg))
            total += cost(h)
        else:
            left.append((h, cfg))
    return chosen, left, total


def by_property(pid, tier):
    out = []
    for h in HARNESSES:
        if pid in h["props"] and (tier == "thorough" or h["tier"] == "quick"):
            out.append(h)
    return out


def by_name(name):
    for h in HARNESSES:
        if h["name"] == name:
            return h
    return None
