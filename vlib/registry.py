"""Harness registry: which #[kani::proof] functions exist under /verif/harness, what real
functions they encode, which properties their assertions are tagged with, and the tier /
configurations / resource budget they run in.

Assertion messages inside the harnesses start with the property tag(s), e.g. "C03: ..." or
"C03/C19: ...".  The driver attributes a failed check to the properties named in its tag; an
untagged failure (Kani's built-in checks: overflow, OOB, unwrap on None, debug_assert!,
unreachable!) is a panic of the real code and is attributed to C01 when the harness carries
C01, otherwise to every property of the harness.
"""

HARNESSES = []


def H(name, module, props, tier="quick", cfgs=("debug",), bound="", funcs=(), stubs=(), assumes=(),
      expect="pass", timeout=600, mem=8, weight=None, contexts=None, decoder=None, twin_of=None,
      known=None):
    """Register a harness.

    tier: 'quick' harnesses run in both tiers, 'thorough' ones only in the thorough tier.
    expect: 'pass' | 'twin' (vacuity twin: must FAIL with exactly the TWIN assertion).
    timeout: seconds for the thorough tier / first run; mem: GB for ulimit -v.
    weight: GB used for scheduling (defaults to mem/2).
    contexts/decoder: how a counterexample is lifted to API-level replay inputs (vlib.replay).
    """
    HARNESSES.append({
        "name": name, "module": module, "full": module + "::" + name, "props": list(props),
        "tier": tier, "cfgs": list(cfgs), "bound": bound, "funcs": list(funcs), "stubs": list(stubs),
        "assumes": list(assumes), "expect": expect, "timeout": timeout, "mem": mem,
        "weight": weight if weight is not None else max(1.0, mem / 2.0),
        "contexts": contexts, "decoder": decoder, "twin_of": twin_of, "known": known,
    })


CUR = "lexer::cursor::verif"
BUF = "lexer::buffer::verif"
MAC = "lexer::r#macro::verif"
NUM = "lexer::numeric::verif"
LMO = "lexer::lexer_mode::verif"
LEX = "lexer::verif"

CURSOR_FUNCS = {
    "advance": ["Cursor::new", "Cursor::advance", "Cursor::as_str", "Cursor::char_offset", "Cursor::remaining_len"],
    "advance_by": ["Cursor::advance_by", "Cursor::as_str", "Cursor::char_offset"],
    "eat_char": ["Cursor::eat_char", "Cursor::peek", "Cursor::advance"],
    "eat_while": ["Cursor::eat_while", "Cursor::peek", "Cursor::advance"],
    "peek": ["Cursor::peek", "Cursor::peek_next", "Cursor::chars", "Cursor::clone"],
}

# ---------------------------------------------------------------------------------------------
# cursor.rs  (C03, C19)
for k, tier, tmo in ((2, "quick", 300), (3, "thorough", 900), (4, "thorough", 2400)):
    for fn in ("advance", "advance_by", "eat_char", "eat_while", "peek"):
        H(f"cur_{fn}_k{k}", CUR, ["C03", "C19"] if fn == "advance_by" else ["C03"],
          tier=tier, cfgs=("debug", "nodebug"), bound=f"any UTF-8 string of <= {k} code points; "
          + ("n in 1..=k+1, start at any split point" if fn == "advance_by" else "all split points"),
          funcs=CURSOR_FUNCS[fn], timeout=tmo, mem=6,
          decoder="str_k", contexts=["text"])
H("twin_cur_advance_by", CUR, ["C03", "C19"], tier="quick", cfgs=("debug", "nodebug"), expect="twin",
  bound="k<=2", funcs=["Cursor::advance_by"], timeout=300, mem=6)


def by_property(pid, tier):
    out = []
    for h in HARNESSES:
        if pid in h["props"] and (tier == "thorough" or h["tier"] == "quick"):
            out.append(h)
    return out


def by_name(name):
    for h in HARNESSES:
        if h["name"] == name:
            return h
    return None
