"""known_findings.txt: genuine defects recorded rather than repaired, and the log of repaired ones.

Line formats (one per line, '#' comments):
  known: property=<id> input=<json string of the API-level source text> :: <what fails>
  fixed: property=<id> <commit> <what failed>
A `known` line suppresses exactly the violation whose API-level replay input equals `input`
(after normalisation: as-is, byte for byte); any other violation of the same property is still
reported. `fixed` lines suppress nothing."""
import json
import os
import re

from . import kani

PATH = os.path.join(kani.VERIF, "known_findings.txt")


def load():
    known = []
    if not os.path.exists(PATH):
        return known
    with open(PATH, encoding="utf-8") as f:
        for ln in f:
            ln = ln.rstrip("\n")
            m = re.match(r"known: property=(C\d\d) input=(\"(?:[^\"\\]|\\.)*\") :: (.*)$", ln)
            if m:
                known.append({"pid": m.group(1), "input": json.loads(m.group(2)), "what": m.group(3)})
    return known


def match(known, pid, text):
    for k in known:
        if k["pid"] == pid and k["input"] == text:
            return k
    return None
