"""Census (glue audit): a syntactic scan of /repo's current lexer sources, regenerated on every
run. It decides nothing (verdicts are solver results only); it (i) lists the sites each property's
decomposition relies on, (ii) reports sites that no registered harness encodes (UNCOVERED, exit
code unaffected), (iii) records per-function source hashes in the evidence."""
import hashlib
import os
import re

from . import kani, registry

SRC = os.path.join(kani.CRATE, "src", "lexer")
FILES = ["mod.rs", "buffer.rs", "cursor.rs", "macro.rs", "numeric.rs", "hex.rs", "lexer_mode.rs", "text.rs",
         "sas_lang.rs", "token_type.rs", "error.rs"]

FN_RE = re.compile(r"^\s*(?:pub(?:\([a-z]+\))?\s+)?(?:const\s+)?fn\s+([A-Za-z_0-9]+)")

# call sites the per-property decompositions rely on (DESIGN.md §5)
SITE_PATTERNS = {
    "add_line": re.compile(r"\badd_line\("),
    "add_token": re.compile(r"\.add_token\("),
    "insert_token": re.compile(r"\.insert_token\("),
    "rollback": re.compile(r"\bself\.rollback\(|lexer\.rollback\("),
    "checkpoint": re.compile(r"\b(?:self|lexer)\.checkpoint\(\)"),
    "history_read": re.compile(r"last_token_info(?:_on_default_channel)?(?:_mut)?\(|iter_token_infos\("),
    "emit_error": re.compile(r"emit_error(?:_info)?\("),
    "macro_sep_cfg": re.compile(r'cfg\(feature = "macro_sep"\)'),
    "debug_cfg": re.compile(r"cfg!?\(debug_assertions\)"),
    "letter_literal": re.compile(r"'[a-zA-Z]'\s*\|\s*'[a-zA-Z]'|b'[a-zA-Z]'"),
    "advance_by": re.compile(r"\.advance_by\("),
    "push_mode": re.compile(r"\.push_mode\(|mode_stack\.(?:insert|push)\("),
}

# which site kinds matter to which property
PROP_SITES = {
    "C04": ["add_line"],
    "C02": ["add_token", "insert_token", "rollback"],
    "C03": ["advance_by"],
    "C09": ["emit_error", "rollback", "checkpoint"],
    "C15": ["history_read"],
    "C16": ["letter_literal"],
    "C18": ["macro_sep_cfg"],
    "C19": ["debug_cfg"],
    "C01": ["checkpoint", "rollback", "push_mode"],
}


def _functions(path):
    """[(name, start_line, end_line, text)] for fn items (brace matched), skipping #[cfg(test)] mods
    and the #[cfg(kani)] hook."""
    with open(path, encoding="utf-8") as f:
        lines = f.read().split("\n")
    out = []
    i = 0
    n = len(lines)
    stop = n
    for j, ln in enumerate(lines):
        if ln.startswith("#[cfg(test)]") and j + 1 < n and lines[j + 1].startswith("mod tests") and "{" in lines[j + 1]:
            stop = j
            break
        if ln.startswith("#[cfg(kani)]"):
            stop = j
            break
    while i < stop:
        m = FN_RE.match(lines[i])
        if m and not lines[i].lstrip().startswith("//"):
            name = m.group(1)
            depth = 0
            started = False
            j = i
            while j < stop:
                # crude: braces in strings/chars are rare in fn headers; char literals '{' '}' occur in lex_symbols
                s = re.sub(r"'\{'|'\}'|\"[^\"]*\"", "", lines[j])
                s = re.sub(r"//.*$", "", s)
                depth += s.count("{") - s.count("}")
                if "{" in s:
                    started = True
                if started and depth <= 0:
                    break
                if not started and s.rstrip().endswith(";"):
                    break
                j += 1
            out.append((name, i + 1, j + 1, "\n".join(lines[i:j + 1])))
            i = j + 1 if j > i else i + 1
        else:
            i += 1
    return out


def scan():
    cen = {"functions": {}, "sites": {}}
    for fn in FILES:
        p = os.path.join(SRC, fn)
        if not os.path.exists(p):
            continue
        for name, a, b, text in _functions(p):
            key = f"{fn}:{name}"
            cen["functions"][key] = {
                "lines": [a, b],
                "sha256": hashlib.sha256(text.encode()).hexdigest()[:16],
            }
            for kind, pat in SITE_PATTERNS.items():
                c = len(pat.findall(text))
                if c:
                    cen["sites"].setdefault(kind, {})[key] = c
    return cen


# small helpers every lexer-level harness runs through (real code, never stubbed except emit_error / push_mode)
PLUMBING = {"mode", "pop_mode", "push_mode", "emit_error", "emit_error_info", "pending_stat", "set_pending_stat", "push_pending_stat",
            "pop_pending_stat", "pending_token_text", "start_token", "mark_token_start", "emit_token", "emit_token_at_mark",
            "emit_empty_macro_string_token", "add_line", "cur_byte_offset", "cur_char_offset", "prep_error_info_at_cur_offset",
            "add_string_literal_from_src", "clear_checkpoint", "checkpoint", "rollback", "update_last_token"}


def _encoded_functions(pid):
    enc = set(PLUMBING)
    for h in registry.HARNESSES:
        if pid in h["props"]:
            for f in h["funcs"]:
                enc.add(f.split("::")[-1].split(" ")[0])
    return enc


def _is_encoded(name, enc):
    return name in enc or any(e.endswith("*") and name.startswith(e[:-1]) for e in enc)


def uncovered(cen, pid):
    """Functions that contain a site relevant to `pid` but are encoded by no harness of `pid`."""
    out = []
    enc = _encoded_functions(pid)
    for kind in PROP_SITES.get(pid, []):
        for key in sorted(cen["sites"].get(kind, {})):
            name = key.split(":")[1]
            if not _is_encoded(name, enc):
                out.append(f"{key}[{kind}]")
    return out


def summary(cen):
    return {
        "functions_scanned": len(cen["functions"]),
        "site_counts": {k: sum(v.values()) for k, v in cen["sites"].items()},
        "source_sha256": hashlib.sha256(
            "".join(f"{k}={v['sha256']};" for k, v in sorted(cen["functions"].items())).encode()).hexdigest()[:16],
    }


def changed_functions(depth=2):
    """Names of the lexer functions whose source text differs between /repo's working tree and its HEAD commit,
    plus their (transitive, up to `depth`) callers by name.  Used only to ORDER the secondary queries of the quick
    tier (the ones that encode a changed function or a caller of it come first); it excludes nothing and decides
    nothing.  Empty on an unchanged tree or when git is unavailable."""
    import subprocess
    import tempfile
    changed = set()
    cur = {}
    for fn in FILES:
        p = os.path.join(SRC, fn)
        if not os.path.exists(p):
            continue
        now = {name: hashlib.sha256(text.encode()).hexdigest() for name, _, _, text in _functions(p)}
        for name, _, _, text in _functions(p):
            cur[name] = text
        rel = os.path.relpath(p, kani.REPO)
        try:
            old_src = subprocess.run(["git", "-C", kani.REPO, "show", "HEAD:" + rel], capture_output=True, text=True, timeout=20)
        except Exception:
            return set()
        if old_src.returncode != 0:
            continue
        if old_src.stdout == open(p, encoding="utf-8").read():
            continue
        with tempfile.NamedTemporaryFile("w", suffix=".rs", delete=False, encoding="utf-8") as tf:
            tf.write(old_src.stdout)
            tmp = tf.name
        try:
            old = {name: hashlib.sha256(text.encode()).hexdigest() for name, _, _, text in _functions(tmp)}
        finally:
            os.unlink(tmp)
        for name, hsh in now.items():
            if old.get(name) != hsh:
                changed.add(name)
        for name in old:
            if name not in now:
                changed.add(name)
        if not (set(now) - set(n for n in now if old.get(n) == now[n])) and old_src.stdout != "":
            # the file differs outside every function body (a constant, a type, an attribute): every function of it
            if not any(old.get(n) != now[n] for n in now):
                changed.update(now)
    out = set(changed)
    frontier = set(changed)
    for _ in range(depth):
        nxt = set()
        for caller, text in cur.items():
            if caller in out:
                continue
            if any(re.search(r"\b" + re.escape(f) + r"\s*\(", text) for f in frontier):
                nxt.add(caller)
        out |= nxt
        frontier = nxt
        if not frontier:
            break
    return out
