//! Reference lexer for macro-free open code (C11): a direct longest-match reading of the open-code
//! grammar of DESIGN.md §4.C11. Used only to confirm solver counterexamples natively.
//! Returns no verdict (empty list) when the text contains a macro trigger or a numeric spelling
//! whose span depends on the third-party parser's corner cases.
use crate::Run;
use sas_lexer::error::ErrorKind;
use sas_lexer::{TokenChannel, TokenType};
use unicode_ident::{is_xid_continue, is_xid_start};

#[derive(Debug, Clone, Copy, PartialEq)]
enum Class {
    Exact(TokenType),
    Ident,
    Numeric,
}

struct RTok {
    class: Class,
    ch: TokenChannel,
    s: usize,
    e: usize,
}

fn name_start(c: char) -> bool {
    c == '_' || is_xid_start(c)
}

pub fn macro_free(chars: &[char]) -> bool {
    let n = chars.len();
    let mut i = 0;
    while i < n {
        if chars[i] == '%' && i + 1 < n && (chars[i + 1] == '*' || name_start(chars[i + 1])) {
            return false;
        }
        if chars[i] == '&' {
            let mut j = i;
            while j < n && chars[j] == '&' {
                j += 1;
            }
            if j < n && name_start(chars[j]) {
                return false;
            }
            i = j;
            continue;
        }
        i += 1;
    }
    true
}

fn suffix(chars: &[char], i: usize) -> (TokenType, usize) {
    let c = chars.get(i).copied().unwrap_or(' ');
    match c {
        'b' | 'B' => (TokenType::BitTestingLiteral, 1),
        'd' | 'D' => {
            if matches!(chars.get(i + 1), Some('t' | 'T')) {
                (TokenType::DateTimeLiteral, 2)
            } else {
                (TokenType::DateLiteral, 1)
            }
        }
        'n' | 'N' => (TokenType::NameLiteral, 1),
        't' | 'T' => (TokenType::TimeLiteral, 1),
        'x' | 'X' => (TokenType::HexStringLiteral, 1),
        _ => (TokenType::StringLiteral, 0),
    }
}

/// None = no verdict
fn reference(src: &str) -> Option<(Vec<RTok>, Vec<(ErrorKind, usize)>)> {
    let chars: Vec<char> = src.chars().collect();
    let mut boff: Vec<usize> = Vec::with_capacity(chars.len() + 1);
    let mut b = 0;
    for c in &chars {
        boff.push(b);
        b += c.len_utf8();
    }
    boff.push(b);
    if !macro_free(&chars) {
        return None;
    }
    let n = chars.len();
    let mut toks = Vec::new();
    let mut errs = Vec::new();
    let mut i = if chars.first() == Some(&'\u{feff}') { 1 } else { 0 };
    let mut pending = false;
    let mut prev_default_semi = true; // none counts as statement start
    while i < n {
        let c = chars[i];
        let nx = chars.get(i + 1).copied();
        let s = i;
        let (class, ch, e): (Class, TokenChannel, usize);
        if c.is_whitespace() {
            let mut j = i;
            while j < n && chars[j].is_whitespace() {
                j += 1;
            }
            (class, ch, e) = (Class::Exact(TokenType::WS), TokenChannel::HIDDEN, j);
        } else if c == '/' && nx == Some('*') {
            let mut j = i + 2;
            let mut end = None;
            while j + 1 < n {
                if chars[j] == '*' && chars[j + 1] == '/' {
                    end = Some(j + 2);
                    break;
                }
                j += 1;
            }
            let e2 = end.unwrap_or(n);
            if end.is_none() {
                errs.push((ErrorKind::UnterminatedComment, boff[n]));
            }
            (class, ch, e) = (Class::Exact(TokenType::CStyleComment), TokenChannel::COMMENT, e2);
        } else if c == '\'' || c == '"' {
            let mut j = i + 1;
            let mut close = None;
            while j < n {
                if chars[j] == c {
                    if chars.get(j + 1) == Some(&c) {
                        j += 2;
                        continue;
                    }
                    close = Some(j);
                    break;
                }
                j += 1;
            }
            match close {
                Some(q) => {
                    let (tt, sl) = suffix(&chars, q + 1);
                    (class, ch, e) = (Class::Exact(tt), TokenChannel::DEFAULT, q + 1 + sl);
                }
                None => {
                    errs.push((ErrorKind::UnterminatedStringLiteral, boff[n]));
                    (class, ch, e) = (Class::Exact(TokenType::StringLiteral), TokenChannel::DEFAULT, n);
                }
            }
        } else if c == ';' {
            (class, ch, e) = (Class::Exact(TokenType::SEMI), TokenChannel::DEFAULT, i + 1);
        } else if c.is_ascii_digit() || (c == '.' && nx.map_or(false, |d| d.is_ascii_digit())) {
            // decimal notation
            let mut j = i;
            while j < n && chars[j].is_ascii_digit() {
                j += 1;
            }
            let int_len = j - i;
            if j < n && chars[j] == '.' {
                j += 1;
                while j < n && chars[j].is_ascii_digit() {
                    j += 1;
                }
            }
            if j < n && matches!(chars[j], 'e' | 'E') {
                let mut k = j + 1;
                if k < n && matches!(chars[k], '+' | '-') {
                    k += 1;
                }
                let ds = k;
                while k < n && chars[k].is_ascii_digit() {
                    k += 1;
                }
                if k > ds {
                    j = k;
                } else {
                    return None; // empty exponent: the third-party parser's error span decides
                }
            }
            let dec_len = j - i;
            let mut h = i;
            while c != '.' && h < n && chars[h].is_ascii_hexdigit() {
                h += 1;
            }
            let hex_len = h - i;
            if int_len > 19 || hex_len > 15 {
                return None; // overflow fallbacks
            }
            let is_x = |p: usize| matches!(chars.get(p), Some('x' | 'X'));
            let e2 = if hex_len > dec_len || (hex_len == dec_len && hex_len > 0 && is_x(i + hex_len)) {
                if is_x(i + hex_len) {
                    i + hex_len + 1
                } else {
                    errs.push((ErrorKind::UnterminatedHexNumericLiteral, boff[i + hex_len]));
                    i + hex_len
                }
            } else {
                i + dec_len
            };
            (class, ch, e) = (Class::Numeric, TokenChannel::DEFAULT, e2);
        } else if name_start(c) {
            let mut j = i;
            while j < n && (if chars[j].is_ascii() { chars[j].is_ascii_alphanumeric() || chars[j] == '_' } else { is_xid_continue(chars[j]) }) {
                j += 1;
            }
            let word: String = chars[i..j].iter().collect::<String>().to_ascii_uppercase();
            let dl4 = matches!(word.as_str(), "DATALINES4" | "CARDS4" | "LINES4");
            let dl = dl4 || matches!(word.as_str(), "DATALINES" | "CARDS" | "LINES");
            let mut k = j;
            while k < n && chars[k].is_whitespace() {
                k += 1;
            }
            if dl && prev_default_semi && k < n && chars[k] == ';' {
                toks.push(RTok { class: Class::Exact(TokenType::DatalinesStart), ch: TokenChannel::DEFAULT, s, e: k + 1 });
                let ds = k + 1;
                let mut m = ds;
                let mut found = None;
                while m < n {
                    if chars[m] == ';' && (!dl4 || (m + 3 < n && chars[m + 1] == ';' && chars[m + 2] == ';' && chars[m + 3] == ';')) {
                        found = Some(m);
                        break;
                    }
                    m += 1;
                }
                let de = found.unwrap_or(n);
                toks.push(RTok { class: Class::Exact(TokenType::DatalinesData), ch: TokenChannel::DEFAULT, s: ds, e: de });
                let te = match found {
                    Some(f) => f + if dl4 { 4 } else { 1 },
                    None => {
                        errs.push((ErrorKind::UnterminatedDatalines, boff[n]));
                        n
                    }
                };
                toks.push(RTok { class: Class::Exact(TokenType::SEMI), ch: TokenChannel::DEFAULT, s: de, e: te });
                i = te;
                pending = false;
                prev_default_semi = true;
                continue;
            }
            (class, ch, e) = (Class::Ident, TokenChannel::DEFAULT, j);
        } else if c == '*' && !pending {
            let mut j = i + 1;
            while j < n && chars[j] != ';' {
                j += 1;
            }
            let e2 = if j < n { j + 1 } else { n };
            (class, ch, e) = (Class::Exact(TokenType::PredictedCommentStat), TokenChannel::COMMENT, e2);
        } else if c == '$' {
            let mut j = i + 1;
            if j < n && name_start(chars[j]) {
                j += 1;
                while j < n && is_xid_continue(chars[j]) {
                    j += 1;
                }
            }
            while j < n && chars[j].is_ascii_digit() {
                j += 1;
            }
            if j < n && chars[j] == '.' {
                j += 1;
                while j < n && chars[j].is_ascii_digit() {
                    j += 1;
                }
                (class, ch, e) = (Class::Exact(TokenType::CharFormat), TokenChannel::DEFAULT, j);
            } else {
                (class, ch, e) = (Class::Exact(TokenType::DOLLAR), TokenChannel::DEFAULT, i + 1);
            }
        } else if c == '&' {
            let mut j = i;
            while j < n && chars[j] == '&' {
                j += 1;
            }
            (class, ch, e) = (Class::Exact(TokenType::AMP), TokenChannel::DEFAULT, j);
        } else {
            use TokenType::*;
            let two = |a: TokenType| (Class::Exact(a), TokenChannel::DEFAULT, i + 2);
            let one = |a: TokenType| (Class::Exact(a), TokenChannel::DEFAULT, i + 1);
            (class, ch, e) = match (c, nx) {
                ('*', Some('*')) => two(STAR2),
                ('*', _) => one(STAR),
                ('!', Some('!')) => two(EXCL2),
                ('!', _) => one(EXCL),
                ('¦', Some('¦')) => two(BPIPE2),
                ('¦', _) => one(BPIPE),
                ('|', Some('|')) => two(PIPE2),
                ('|', _) => one(PIPE),
                ('¬' | '^' | '~' | '∘', Some('=')) => two(NE),
                ('¬' | '^' | '~' | '∘', _) => one(NOT),
                ('<', Some('=')) => two(LE),
                ('<', Some('>')) => two(LTGT),
                ('<', _) => one(LT),
                ('>', Some('=')) => two(GE),
                ('>', Some('<')) => two(GTLT),
                ('>', _) => one(GT),
                ('=', Some('*')) => two(SoundsLike),
                ('=', _) => one(ASSIGN),
                ('/', _) => one(FSLASH),
                ('%', _) => one(PERCENT),
                ('(', _) => one(LPAREN),
                (')', _) => one(RPAREN),
                ('{', _) => one(LCURLY),
                ('}', _) => one(RCURLY),
                ('[', _) => one(LBRACK),
                (']', _) => one(RBRACK),
                ('+', _) => one(PLUS),
                ('-', _) => one(MINUS),
                ('.', _) => one(DOT),
                (',', _) => one(COMMA),
                (':', _) => one(COLON),
                ('@', _) => one(AT),
                ('#', _) => one(HASH),
                ('?', _) => one(QUESTION),
                _ => (Class::Exact(CatchAll), TokenChannel::HIDDEN, i + 1),
            };
        }
        toks.push(RTok { class, ch, s, e });
        if ch == TokenChannel::DEFAULT {
            prev_default_semi = class == Class::Exact(TokenType::SEMI);
            pending = class != Class::Exact(TokenType::SEMI);
        } else if class == Class::Exact(TokenType::CatchAll) {
            pending = true;
        }
        i = e;
    }
    // char indices -> byte offsets
    for t in &mut toks {
        t.s = boff[t.s];
        t.e = boff[t.e];
    }
    Some((toks, errs))
}

fn is_kw(tt: TokenType) -> bool {
    let n = format!("{tt:?}");
    n.starts_with("Kw") && !n.starts_with("Kwm")
}

pub fn compare(r: &Run) -> Vec<String> {
    let Some((rt, rerr)) = reference(&r.src) else {
        return Vec::new();
    };
    let mut v = Vec::new();
    let actual: Vec<_> = r.toks.iter().filter(|t| t.tt != TokenType::EOF).collect();
    if actual.len() != rt.len() {
        let k = actual.iter().zip(rt.iter()).position(|(a, b)| a.bs != b.s || a.be != b.e).unwrap_or(actual.len().min(rt.len()));
        v.push(format!("open-code grammar gives {} tokens, lexer {}; first difference at token {} (lexer {:?})", rt.len(), actual.len(), k, actual.get(k).map(|a| (a.tt, a.bs, a.be))));
        return v;
    }
    for (a, b) in actual.iter().zip(rt.iter()) {
        let class_ok = match b.class {
            Class::Exact(tt) => a.tt == tt,
            Class::Ident => a.tt == TokenType::Identifier || is_kw(a.tt),
            Class::Numeric => matches!(a.tt, TokenType::IntegerLiteral | TokenType::FloatLiteral | TokenType::FloatExponentLiteral),
        };
        if !class_ok || a.ch != b.ch || a.bs != b.s || a.be != b.e {
            v.push(format!("token {} is {:?}/{:?} [{}..{}] but the open-code grammar reads {:?}/{:?} [{}..{}]", a.idx, a.tt, a.ch, a.bs, a.be, b.class, b.ch, b.s, b.e));
            return v;
        }
    }
    let watched = [ErrorKind::UnterminatedComment, ErrorKind::UnterminatedStringLiteral, ErrorKind::UnterminatedDatalines, ErrorKind::UnterminatedHexNumericLiteral];
    let act: Vec<(ErrorKind, usize)> = r.errors.iter().filter(|e| watched.contains(&e.error_kind())).map(|e| (e.error_kind(), e.at_byte_offset() as usize)).collect();
    if act != rerr {
        v.push(format!("errors {:?} but the open-code grammar gives {:?}", act, rerr));
    }
    v
}
