//! Reference lexer for macro-free open code (C11) — see DESIGN.md §4.C11. Filled in later.
use crate::Run;

pub fn compare(_r: &Run) -> Vec<String> {
    Vec::new()
}
