//! Native replay binary: lexes a file through the PUBLIC API of the sas-lexer crate built from
//! /repo's current tree and evaluates the API-level oracle of one property on the result.
//!
//!   verif-replay check <PID> <file>   -> prints "OK" / "FAIL <PID>: msg" lines; exit 0 / 1 (3 = panic, 4 = timeout)
//!   verif-replay dump <file>          -> canonical dump of the LexResult (for differential properties)
//!
//! It is used only to CONFIRM counterexamples that the solver produced (DESIGN.md §6): nothing
//! here decides a property.
use sas_lexer::error::{ErrorInfo, ErrorKind};
use sas_lexer::{lex_program, LexResult, Payload, TokenChannel, TokenIdx, TokenType};
use std::fmt::Write as _;
use std::sync::mpsc;
use std::time::Duration;

mod reflex;

#[derive(Clone, Debug)]
pub struct Tok {
    pub idx: u32,
    pub tt: TokenType,
    pub ch: TokenChannel,
    pub bs: usize,
    pub be: usize,
    pub cs: u32,
    pub ce: u32,
    pub line: u32,
    pub col: u32,
    pub eline: u32,
    pub ecol: u32,
    pub payload: Payload,
}

pub struct Run {
    pub src: String,
    pub toks: Vec<Tok>,
    pub errors: Vec<ErrorInfo>,
    pub lit: String,
    pub line_count: u32,
    pub accessor_errors: Vec<String>,
    pub bulk: Vec<sas_lexer::ResolvedTokenInfo>,
}

fn lex_with_watchdog(src: String) -> Result<(String, LexResult), i32> {
    let (tx, rx) = mpsc::channel();
    let s2 = src.clone();
    std::thread::Builder::new()
        .stack_size(64 << 20)
        .spawn(move || {
            let r = std::panic::catch_unwind(|| lex_program(&s2));
            let _ = tx.send(r);
        })
        .expect("spawn");
    match rx.recv_timeout(Duration::from_secs(10)) {
        Ok(Ok(Ok(res))) => Ok((src, res)),
        Ok(Ok(Err(e))) => {
            println!("LEXER-ERR {e:?}");
            Err(5)
        }
        Ok(Err(p)) => {
            let msg = p
                .downcast_ref::<String>()
                .cloned()
                .or_else(|| p.downcast_ref::<&str>().map(|s| (*s).to_string()))
                .unwrap_or_default();
            println!("PANIC {msg}");
            Err(3)
        }
        Err(_) => {
            println!("TIMEOUT lexing did not return within 10 s");
            Err(4)
        }
    }
}

fn build_run(src: String, res: LexResult) -> Run {
    let b = &res.buffer;
    let mut toks = Vec::new();
    let mut aerr = Vec::new();
    for t in b.iter_tokens() {
        macro_rules! acc {
            ($e:expr, $name:literal) => {
                match $e {
                    Ok(v) => v,
                    Err(e) => {
                        aerr.push(format!("{} failed for token {}: {:?}", $name, t.get(), e));
                        Default::default()
                    }
                }
            };
        }
        let tt = b.get_token_type(t).unwrap_or(TokenType::EOF);
        let ch = b.get_token_channel(t).unwrap_or(TokenChannel::DEFAULT);
        let bs: u32 = acc!(b.get_token_start_byte_offset(t).map(|x| x.get()), "get_token_start_byte_offset");
        let be: u32 = acc!(b.get_token_end_byte_offset(t).map(|x| x.get()), "get_token_end_byte_offset");
        let cs: u32 = acc!(b.get_token_start(t).map(|x| x.get()), "get_token_start");
        let ce: u32 = acc!(b.get_token_end(t).map(|x| x.get()), "get_token_end");
        let line: u32 = acc!(b.get_token_start_line(t), "get_token_start_line");
        let eline: u32 = acc!(b.get_token_end_line(t), "get_token_end_line");
        let col: u32 = acc!(b.get_token_start_column(t), "get_token_start_column");
        let ecol: u32 = acc!(b.get_token_end_column(t), "get_token_end_column");
        let payload = b.get_token_payload(t).unwrap_or(Payload::None);
        if b.get_token_raw_text(t, &src).is_err() {
            aerr.push(format!("get_token_raw_text failed for token {}", t.get()));
        }
        if b.get_token_resolved_text(t, &src).is_err() {
            aerr.push(format!("get_token_resolved_text failed for token {}", t.get()));
        }
        toks.push(Tok { idx: t.get(), tt, ch, bs: bs as usize, be: be as usize, cs, ce, line, col, eline, ecol, payload });
    }
    let bulk = b.into_resolved_token_vec();
    Run {
        lit: b.string_literals_buffer().to_string(),
        line_count: b.line_count(),
        toks,
        errors: res.errors.clone(),
        accessor_errors: aerr,
        bulk,
        src,
    }
}

impl Run {
    pub fn text(&self, t: &Tok) -> &str {
        self.src.get(t.bs..t.be).unwrap_or("<BAD-RANGE>")
    }
    /// errors whose last_token names token idx
    pub fn errs_naming(&self, idx: u32) -> Vec<ErrorKind> {
        self.errors
            .iter()
            .filter(|e| e.last_token().map(TokenIdx::get) == Some(idx))
            .map(ErrorInfo::error_kind)
            .collect()
    }
}

fn cp(src: &str, byte: usize) -> Option<u32> {
    if byte > src.len() || !src.is_char_boundary(byte) {
        return None;
    }
    Some(src[..byte].chars().count() as u32)
}
fn nl_before(src: &str, byte: usize) -> u32 {
    src.as_bytes()[..byte].iter().filter(|&&b| b == b'\n').count() as u32
}
fn bom_len(src: &str) -> usize {
    if src.starts_with('\u{feff}') {
        3
    } else {
        0
    }
}
/// byte offset where the line containing position `byte` starts (BOM end for the first line)
fn line_start(src: &str, byte: usize) -> usize {
    match src.as_bytes()[..byte].iter().rposition(|&b| b == b'\n') {
        Some(p) => p + 1,
        None => bom_len(src),
    }
}

// ------------------------------------------------------------------------------------------
// Oracles. Each returns a list of violation messages.

fn c01(r: &Run) -> Vec<String> {
    let mut v = Vec::new();
    for e in &r.errors {
        if e.error_kind().is_internal() {
            v.push(format!("internal error {:?} at byte {}", e.error_kind(), e.at_byte_offset()));
        }
    }
    let n = r.src.chars().count();
    if r.toks.len() > 3 * n + 48 {
        v.push(format!("{} tokens for {} chars: output not linear", r.toks.len(), n));
    }
    if r.errors.len() > 2 * n + 48 {
        v.push(format!("{} errors for {} chars: output not linear", r.errors.len(), n));
    }
    v
}

fn c02(r: &Run) -> Vec<String> {
    let mut v: Vec<String> = r.accessor_errors.clone();
    let src = &r.src;
    if r.toks.is_empty() {
        v.push("no tokens at all".into());
        return v;
    }
    if r.toks[0].bs != bom_len(src) {
        v.push(format!("first token starts at byte {} instead of {}", r.toks[0].bs, bom_len(src)));
    }
    let mut cat = String::new();
    for (i, t) in r.toks.iter().enumerate() {
        if t.bs > src.len() || !src.is_char_boundary(t.bs) {
            v.push(format!("token {} start {} is not a char boundary inside the source", i, t.bs));
            continue;
        }
        if t.be < t.bs {
            v.push(format!("token {} end {} before start {}", i, t.be, t.bs));
        }
        if i + 1 < r.toks.len() {
            if r.toks[i + 1].bs != t.be {
                v.push(format!("token {} end {} != next start {}", i, t.be, r.toks[i + 1].bs));
            }
            if r.toks[i + 1].bs < t.bs {
                v.push(format!("token {} start offsets decrease", i + 1));
            }
            if t.tt == TokenType::EOF {
                v.push(format!("EOF token at index {} is not last", i));
            }
        }
        if let Some(s) = src.get(t.bs..t.be) {
            cat.push_str(s);
        }
    }
    let last = r.toks.last().unwrap();
    if last.tt != TokenType::EOF {
        v.push("last token is not EOF".into());
    }
    if last.bs != src.len() || last.be != src.len() {
        v.push(format!("EOF token at {}..{} but source length {}", last.bs, last.be, src.len()));
    }
    if cat != src[bom_len(src).min(src.len())..] {
        v.push("concatenated token texts do not reproduce the source".into());
    }
    v
}

fn c03(r: &Run) -> Vec<String> {
    let mut v = Vec::new();
    for t in &r.toks {
        match cp(&r.src, t.bs) {
            Some(c) if c == t.cs => {}
            other => v.push(format!("token {} ({:?}) byte {} has char offset {} but code-point index is {:?}", t.idx, t.tt, t.bs, t.cs, other)),
        }
        match cp(&r.src, t.be) {
            Some(c) if c == t.ce => {}
            other => v.push(format!("token {} end byte {} has char offset {} but code-point index is {:?}", t.idx, t.be, t.ce, other)),
        }
    }
    for e in &r.errors {
        match cp(&r.src, e.at_byte_offset() as usize) {
            Some(c) if c == e.at_char_offset() => {}
            other => v.push(format!("error {:?} byte {} char offset {} but code-point index is {:?}", e.error_kind(), e.at_byte_offset(), e.at_char_offset(), other)),
        }
    }
    v
}

fn c04(r: &Run) -> Vec<String> {
    let mut v = Vec::new();
    let src = &r.src;
    let expect_lines = 1 + nl_before(src, src.len());
    if r.line_count != expect_lines {
        v.push(format!("line_count {} but source has {} lines", r.line_count, expect_lines));
    }
    for t in &r.toks {
        if t.bs > src.len() || t.be > src.len() || !src.is_char_boundary(t.bs) || !src.is_char_boundary(t.be) || t.be < t.bs {
            continue; // C02's business
        }
        let el = 1 + nl_before(src, t.bs);
        let ls = line_start(src, t.bs);
        let ec = src[ls..t.bs].chars().count() as u32;
        if t.line != el || t.col != ec {
            v.push(format!("token {} ({:?}) start line/col {}:{} but text says {}:{}", t.idx, t.tt, t.line, t.col, el, ec));
        }
        // end: for an empty token its start; otherwise line of the last char, column of last char + 1
        let (xl, xc) = if t.be == t.bs {
            (el, ec)
        } else {
            let last_char_start = src[..t.be].char_indices().next_back().map(|(i, _)| i).unwrap_or(0);
            let l = 1 + nl_before(src, last_char_start);
            let lst = line_start(src, last_char_start);
            (l, src[lst..last_char_start].chars().count() as u32 + 1)
        };
        if t.eline != xl || t.ecol != xc {
            v.push(format!("token {} ({:?}) end line/col {}:{} but text says {}:{}", t.idx, t.tt, t.eline, t.ecol, xl, xc));
        }
    }
    for e in &r.errors {
        let o = e.at_byte_offset() as usize;
        if o > src.len() || !src.is_char_boundary(o) {
            continue;
        }
        let el = 1 + nl_before(src, o);
        let ec = src[line_start(src, o)..o].chars().count() as u32;
        if e.on_line() != el || e.at_column() != ec {
            v.push(format!("error {:?} line/col {}:{} but text says {}:{}", e.error_kind(), e.on_line(), e.at_column(), el, ec));
        }
    }
    v
}

fn payload_eq(a: Payload, b: Payload) -> bool {
    match (a, b) {
        (Payload::None, Payload::None) => true,
        (Payload::Integer(x), Payload::Integer(y)) => x == y,
        (Payload::Float(x), Payload::Float(y)) => x.to_bits() == y.to_bits(),
        (Payload::StringLiteral(a, b), Payload::StringLiteral(c, d)) => a == c && b == d,
        _ => false,
    }
}

fn c05(r: &Run) -> Vec<String> {
    let mut v = Vec::new();
    if r.bulk.len() != r.toks.len() {
        v.push(format!("bulk view has {} entries, buffer has {} tokens", r.bulk.len(), r.toks.len()));
        return v;
    }
    for (t, b) in r.toks.iter().zip(r.bulk.iter()) {
        let same = b.channel == t.ch
            && b.token_type == t.tt
            && b.token_index == t.idx
            && b.start == t.cs
            && b.stop == t.ce
            && b.line == t.line
            && b.column == t.col
            && b.end_line == t.eline
            && b.end_column == t.ecol
            && payload_eq(b.payload, t.payload);
        if !same {
            v.push(format!("token {}: bulk {:?} differs from accessors {:?}", t.idx, b, t));
        }
    }
    v
}

fn is_kw(tt: TokenType) -> bool {
    let n = format!("{tt:?}");
    n.starts_with("Kw") && !n.starts_with("Kwm")
}
fn is_kwm(tt: TokenType) -> bool {
    format!("{tt:?}").starts_with("Kwm")
}

fn symbol_spellings(tt: TokenType) -> Option<&'static [&'static str]> {
    use TokenType::*;
    Some(match tt {
        AMP => &["&"], // handled separately (run)
        PERCENT => &["%"],
        LPAREN => &["("],
        RPAREN => &[")"],
        LCURLY => &["{"],
        RCURLY => &["}"],
        LBRACK => &["["],
        RBRACK => &["]"],
        STAR => &["*"],
        EXCL => &["!"],
        EXCL2 => &["!!"],
        BPIPE => &["¦"],
        BPIPE2 => &["¦¦"],
        PIPE2 => &["||"],
        STAR2 => &["**"],
        NOT => &["¬", "^", "~", "∘"],
        FSLASH => &["/"],
        PLUS => &["+"],
        MINUS => &["-"],
        GTLT => &["><"],
        LTGT => &["<>"],
        LT => &["<"],
        LE => &["<="],
        NE => &["¬=", "^=", "~=", "∘="],
        GT => &[">"],
        GE => &[">="],
        SoundsLike => &["=*"],
        PIPE => &["|"],
        DOT => &["."],
        COMMA => &[","],
        COLON => &[":"],
        ASSIGN => &["="],
        DOLLAR => &["$"],
        AT => &["@"],
        HASH => &["#"],
        QUESTION => &["?"],
        _ => return None,
    })
}

fn literal_suffix_ok(tt: TokenType, suffix: &str) -> bool {
    use TokenType::*;
    let s = suffix.to_ascii_lowercase();
    match tt {
        StringLiteral | StringExprEnd => s.is_empty(),
        BitTestingLiteral | BitTestingLiteralExprEnd => s == "b",
        DateLiteral | DateLiteralExprEnd => s == "d",
        DateTimeLiteral | DateTimeLiteralExprEnd => s == "dt",
        NameLiteral | NameLiteralExprEnd => s == "n",
        TimeLiteral | TimeLiteralExprEnd => s == "t",
        HexStringLiteral | HexStringLiteralExprEnd => s == "x",
        _ => false,
    }
}

/// For a quoted literal token text: Some((content, suffix)) if properly delimited.
fn split_literal(text: &str) -> Option<(&str, &str)> {
    let q = text.chars().next()?;
    if q != '\'' && q != '"' {
        return None;
    }
    // find the closing quote: the last occurrence of q such that what follows is a suffix of letters
    let bytes = text.as_bytes();
    let mut i = 1;
    while i < bytes.len() {
        if bytes[i] == q as u8 {
            if i + 1 < bytes.len() && bytes[i + 1] == q as u8 {
                i += 2;
                continue;
            }
            return Some((&text[1..i], &text[i + 1..]));
        }
        i += 1;
    }
    None
}

fn c06(r: &Run) -> Vec<String> {
    use TokenType::*;
    let mut v = Vec::new();
    let n = r.toks.len();
    for (i, t) in r.toks.iter().enumerate() {
        let text = r.text(t);
        let named = r.errs_naming(t.idx);
        let mut bad = |m: String| v.push(format!("token {} {:?}/{:?} text {:?}: {}", t.idx, t.tt, t.ch, text, m));
        // channel relation
        let is_comment = matches!(t.tt, CStyleComment | MacroComment | PredictedCommentStat);
        if is_comment != (t.ch == TokenChannel::COMMENT) {
            bad("comment types are exactly the comment channel".into());
        }
        if t.tt == WS && t.ch != TokenChannel::HIDDEN {
            bad("WS must be hidden".into());
        }
        if t.ch == TokenChannel::HIDDEN && !matches!(t.tt, WS | CatchAll | COLON | KwmStr | KwmNrStr | LPAREN | RPAREN) {
            bad("type not allowed on the hidden channel".into());
        }
        if t.ch == TokenChannel::HIDDEN && t.tt == COLON {
            // only after a macro label
            let prev_def = r.toks[..i].iter().rev().find(|p| p.ch == TokenChannel::DEFAULT);
            if prev_def.map(|p| p.tt) != Some(MacroLabel) {
                bad("hidden COLON not preceded by a MacroLabel".into());
            }
        }
        // emptiness
        let may_be_empty = matches!(t.tt, LPAREN | RPAREN | ASSIGN | COMMA | FSLASH | SEMI | StringExprEnd | MacroStringEmpty | MacroSep | EOF | DatalinesData);
        if text.is_empty() && !may_be_empty {
            bad("empty token of a type that must not be empty".into());
        }
        match t.tt {
            EOF | MacroSep | MacroStringEmpty => {
                if !text.is_empty() {
                    bad("virtual token must be empty".into());
                }
            }
            WS => {
                if text.is_empty() || !text.chars().all(char::is_whitespace) {
                    bad("WS must be non-empty whitespace".into());
                }
            }
            SEMI => {
                if !(text.is_empty() || text == ";" || text == ";;;;") {
                    bad("SEMI must consist of terminator characters".into());
                }
                if text == ";;;;" {
                    if i < 2 || r.toks[i - 1].tt != DatalinesData {
                        bad(";;;; outside datalines".into());
                    }
                }
            }
            AMP => {
                if text.is_empty() || !text.chars().all(|c| c == '&') {
                    bad("AMP must be a run of &".into());
                }
            }
            MacroVarResolve => {
                let k = match t.payload {
                    Payload::Integer(k) if k < 32 => k,
                    _ => {
                        bad("MacroVarResolve payload must be Integer(k<32)".into());
                        0
                    }
                };
                if !text.chars().all(|c| c == '&') || text.len() as u64 != 1u64 << k {
                    bad("MacroVarResolve must be 2^k ampersands".into());
                }
            }
            MacroVarTerm => {
                if text != "." {
                    bad("MacroVarTerm must be '.'".into());
                }
            }
            KwLT | KwLE | KwEQ | KwIN | KwNE | KwGT | KwGE | KwAND | KwOR | KwNOT => {
                let want = &format!("{:?}", t.tt)[2..];
                if !text.eq_ignore_ascii_case(want) {
                    bad("mnemonic spelling".into());
                }
            }
            CStyleComment => {
                if !text.starts_with("/*") {
                    bad("must start with /*".into());
                }
                let unterminated = named.contains(&ErrorKind::UnterminatedComment);
                if !unterminated && !(text.len() >= 4 && text.ends_with("*/")) {
                    bad("must end with */ unless an UnterminatedComment error names it".into());
                }
            }
            MacroComment => {
                if !text.starts_with("%*") || !(text.ends_with(';') || t.be == r.src.len()) {
                    bad("macro comment shape".into());
                }
            }
            PredictedCommentStat => {
                if !text.starts_with('*') || !(text.ends_with(';') || t.be == r.src.len()) {
                    bad("predicted comment shape".into());
                }
            }
            StringLiteral | BitTestingLiteral | DateLiteral | DateTimeLiteral | NameLiteral | TimeLiteral | HexStringLiteral => {
                let unterminated = named.contains(&ErrorKind::UnterminatedStringLiteral);
                match split_literal(text) {
                    Some((_, suf)) => {
                        if !literal_suffix_ok(t.tt, suf) {
                            bad("literal suffix does not match the type".into());
                        }
                    }
                    None => {
                        if !unterminated {
                            bad("literal without closing delimiter and no UnterminatedStringLiteral error naming it".into());
                        }
                        if !(text.starts_with('\'') || text.starts_with('"')) {
                            bad("literal must start with a quote".into());
                        }
                    }
                }
            }
            StringExprStart => {
                if text != "\"" {
                    bad("StringExprStart must be a double quote".into());
                }
            }
            StringExprEnd | BitTestingLiteralExprEnd | DateLiteralExprEnd | DateTimeLiteralExprEnd | NameLiteralExprEnd | TimeLiteralExprEnd | HexStringLiteralExprEnd => {
                if t.tt == StringExprEnd && named.contains(&ErrorKind::UnterminatedStringLiteral) {
                    // unterminated: the recovery end token holds whatever text was left (possibly nothing)
                } else if text.is_empty() {
                    bad("empty string-expression end without an UnterminatedStringLiteral error naming it".into());
                } else if !text.starts_with('"') || !literal_suffix_ok(t.tt, &text[1..]) {
                    bad("string-expression end shape".into());
                }
            }
            IntegerLiteral | FloatLiteral | FloatExponentLiteral => {
                let ok = text.bytes().next().map_or(false, |b| b.is_ascii_digit() || b == b'.')
                    && text.bytes().all(|b| b.is_ascii_hexdigit() || matches!(b, b'.' | b'+' | b'-' | b'x' | b'X'));
                if !ok {
                    bad("numeric literal alphabet".into());
                }
            }
            DatalinesStart => {
                let low = text.to_ascii_lowercase();
                let body = low.trim_end_matches(';');
                let kw = body.trim_end();
                if !low.ends_with(';') || low.matches(';').count() != 1 || !matches!(kw, "datalines" | "cards" | "lines" | "datalines4" | "cards4" | "lines4") {
                    bad("DatalinesStart shape".into());
                }
                if i + 2 >= n || r.toks[i + 1].tt != DatalinesData || r.toks[i + 2].tt != SEMI {
                    bad("DatalinesStart must be followed by data and terminator".into());
                }
            }
            CharFormat => {
                let ok = text.starts_with('$') && text[1..].contains('.');
                if !ok {
                    bad("CharFormat shape".into());
                }
            }
            CatchAll => {
                if text.chars().count() != 1 {
                    bad("CatchAll must be exactly one character".into());
                }
            }
            MacroIdentifier | MacroLabel => {
                // '%' + name: a name start (XID_Start or '_'), then name characters only
                let mut it = text.chars();
                let ok = it.next() == Some('%')
                    && it.next().map_or(false, |c| c == '_' || unicode_ident::is_xid_start(c))
                    && it.all(|c| if c.is_ascii() { c.is_ascii_alphanumeric() || c == '_' } else { unicode_ident::is_xid_continue(c) });
                if !ok {
                    bad("macro identifier must be % + name".into());
                }
            }
            Identifier => {
                let mut it = text.chars();
                let ok = it.next().map_or(false, |c| c == '_' || unicode_ident::is_xid_start(c))
                    && it.all(|c| if c.is_ascii() { c.is_ascii_alphanumeric() || c == '_' } else { unicode_ident::is_xid_continue(c) });
                if !ok {
                    bad("identifier must be a name".into());
                }
            }
            tt if is_kwm(tt) => {
                let name = format!("{tt:?}")[3..].to_ascii_uppercase();
                let up = text.to_ascii_uppercase();
                let ok = up.starts_with('%') && (up[1..] == name || (tt == KwmInclude && &up[1..] == "INC") || (tt == KwmKLowcase && &up[1..] == "KLOWCASE"));
                if !ok {
                    bad("macro keyword spelling".into());
                }
                let hidden = matches!(tt, KwmStr | KwmNrStr);
                if hidden != (t.ch == TokenChannel::HIDDEN) {
                    bad("macro keyword channel".into());
                }
            }
            tt if is_kw(tt) => {
                if text.is_empty() || !text.is_ascii() {
                    bad("keyword must be non-empty ASCII".into());
                }
            }
            tt => {
                if let Some(sp) = symbol_spellings(tt) {
                    let virtual_ok = matches!(tt, LPAREN | RPAREN | ASSIGN | COMMA | FSLASH) && text.is_empty();
                    let pct = text.strip_prefix('%').map_or(false, |rest| matches!(tt, NOT | NE | ASSIGN) && sp.contains(&rest));
                    if !(sp.contains(&text) || virtual_ok || pct) {
                        bad("symbol token is not exactly its symbol".into());
                    }
                    if t.ch == TokenChannel::HIDDEN && matches!(tt, LPAREN | RPAREN) {
                        // only as %str/%nrstr wrappers: some KwmStr/KwmNrStr must precede
                        if !r.toks[..i].iter().any(|p| matches!(p.tt, KwmStr | KwmNrStr)) {
                            bad("hidden paren without %str/%nrstr".into());
                        }
                    }
                }
            }
        }
    }
    v
}

fn unquote(content: &str, q: char) -> String {
    let mut out = String::new();
    let mut it = content.chars().peekable();
    while let Some(c) = it.next() {
        out.push(c);
        if c == q && it.peek() == Some(&q) {
            it.next();
        }
    }
    out
}
fn unquote_str_call(text: &str) -> String {
    let mut out = String::new();
    let mut it = text.chars().peekable();
    while let Some(c) = it.next() {
        if c == '%' {
            if let Some(&nx) = it.peek() {
                if matches!(nx, '"' | '\'' | '%' | '(' | ')') {
                    out.push(nx);
                    it.next();
                    continue;
                }
            }
        }
        out.push(c);
    }
    out
}

fn c07(r: &Run) -> Vec<String> {
    use TokenType::*;
    let mut v = Vec::new();
    let mut next_start = 0u32;
    // paren stack: true = hidden paren of a %str/%nrstr call; a MacroString directly inside is %-quoted text
    let mut parens: Vec<bool> = Vec::new();
    for t in &r.toks {
        let text = r.text(t);
        if t.tt == LPAREN {
            parens.push(t.ch == TokenChannel::HIDDEN);
        } else if t.tt == RPAREN {
            parens.pop();
        }
        let in_str_call = parens.last() == Some(&true);
        if let Payload::StringLiteral(a, b) = t.payload {
            if a != next_start || b < a || b as usize > r.lit.len() {
                v.push(format!("token {} payload range {}..{} does not continue the literal buffer at {}", t.idx, a, b, next_start));
            }
            next_start = b.max(next_start);
        }
        let got: Option<&str> = match t.payload {
            Payload::StringLiteral(a, b) => r.lit.get(a as usize..b as usize),
            _ => None,
        };
        let has_payload = matches!(t.payload, Payload::StringLiteral(..));
        let expect: Option<(String, String)> = match t.tt {
            StringLiteral | BitTestingLiteral | DateLiteral | DateTimeLiteral | NameLiteral | TimeLiteral => {
                let q = text.chars().next().unwrap_or('\'');
                let content = match split_literal(text) {
                    Some((c, _)) => c,
                    None => text.get(1..).unwrap_or(""),
                };
                Some((content.to_string(), unquote(content, q)))
            }
            StringExprText => Some((text.to_string(), unquote(text, '"'))),
            StringExprEnd if text.is_empty() => None,
            MacroString if has_payload || in_str_call => Some((text.to_string(), unquote_str_call(text))),
            _ => None,
        };
        // hex string literals: decoded byte-wise as Latin-1 when, and only when, the content (commas removed) is a
        // sequence of hex digit pairs; otherwise an InvalidHexStringConstant error names the token and the payload
        // follows the rule of an ordinary quoted literal. Computed here from the characters, without any parser.
        if t.tt == HexStringLiteral {
            if let Some((content, _)) = split_literal(text) {
                let q = text.chars().next().unwrap_or('\'');
                let cleaned: Vec<u8> = content.bytes().filter(|b| *b != b',').collect();
                let digit = |b: u8| -> Option<u32> {
                    match b {
                        b'0'..=b'9' => Some(u32::from(b - b'0')),
                        b'a'..=b'f' => Some(u32::from(b - b'a') + 10),
                        b'A'..=b'F' => Some(u32::from(b - b'A') + 10),
                        _ => None,
                    }
                };
                let valid = cleaned.len() % 2 == 0 && cleaned.iter().all(|b| digit(*b).is_some());
                let flagged = r.errs_naming(t.idx).contains(&ErrorKind::InvalidHexStringConstant);
                if valid {
                    let want: String = cleaned.chunks(2).map(|p| char::from_u32(digit(p[0]).unwrap_or(0) * 16 + digit(p[1]).unwrap_or(0)).unwrap_or('?')).collect();
                    if got != Some(want.as_str()) {
                        v.push(format!("token {} hex literal {:?}: payload {:?} but the digit pairs decode (Latin-1) to {:?}", t.idx, text, got, want));
                    }
                    if flagged {
                        v.push(format!("token {} hex literal {:?}: made of hex digit pairs but reported invalid", t.idx, text));
                    }
                } else {
                    if !flagged {
                        v.push(format!("token {} hex literal {:?}: not made of hex digit pairs but decoded/accepted (payload {:?})", t.idx, text, got));
                    }
                    let unq = unquote(content, q);
                    if has_payload {
                        if got != Some(unq.as_str()) {
                            v.push(format!("token {} invalid hex literal {:?}: payload {:?} but unquoted value is {:?}", t.idx, text, got, unq));
                        }
                    } else if unq != content {
                        v.push(format!("token {} invalid hex literal {:?}: no payload although the content needs unquoting", t.idx, text));
                    }
                }
            }
        }
        if let Some((content, unq)) = expect {
            if has_payload {
                if got != Some(unq.as_str()) {
                    v.push(format!("token {} {:?} text {:?}: payload {:?} but unquoted value is {:?}", t.idx, t.tt, text, got, unq));
                }
            } else if unq != content {
                v.push(format!("token {} {:?} text {:?}: no payload although the content needs unquoting to {:?}", t.idx, t.tt, text, unq));
            }
        }
    }
    if next_start as usize != r.lit.len() {
        v.push(format!("payload ranges cover {} bytes of a {}-byte literal buffer", next_start, r.lit.len()));
    }
    v
}

fn c08(r: &Run) -> Vec<String> {
    use TokenType::*;
    let mut v = Vec::new();
    for t in &r.toks {
        if !matches!(t.tt, IntegerLiteral | FloatLiteral | FloatExponentLiteral) {
            continue;
        }
        let named = r.errs_naming(t.idx);
        if named.contains(&ErrorKind::InvalidNumericLiteral) || named.contains(&ErrorKind::UnterminatedHexNumericLiteral) {
            continue;
        }
        let text = r.text(t);
        let is_hex = text.ends_with('x') || text.ends_with('X');
        match (t.tt, t.payload) {
            (IntegerLiteral, Payload::Integer(val)) => {
                let want = if is_hex { u64::from_str_radix(&text[..text.len() - 1], 16).ok() } else { text.parse::<u64>().ok() };
                if want != Some(val) {
                    v.push(format!("integer token {:?} has payload {} but the text denotes {:?}", text, val, want));
                }
            }
            (FloatLiteral | FloatExponentLiteral, Payload::Float(val)) => {
                let has_e = text.contains('e') || text.contains('E');
                if has_e != (t.tt == FloatExponentLiteral) {
                    v.push(format!("float token {:?}: type {:?} does not follow the notation", text, t.tt));
                }
                // Rust's parser is correctly rounded; "1." and ".5" are accepted by it
                match text.parse::<f64>() {
                    Ok(w) if w.to_bits() == val.to_bits() => {}
                    other => v.push(format!("float token {:?} has payload {:e} but the text denotes {:?}", text, val, other)),
                }
            }
            _ => v.push(format!("numeric token {:?} of type {:?} carries payload {:?}", text, t.tt, t.payload)),
        }
    }
    v
}

fn missing_kind(tt: TokenType) -> Option<ErrorKind> {
    Some(match tt {
        TokenType::RPAREN => ErrorKind::MissingExpectedRParen,
        TokenType::ASSIGN => ErrorKind::MissingExpectedAssign,
        TokenType::LPAREN => ErrorKind::MissingExpectedLParen,
        TokenType::COMMA => ErrorKind::MissingExpectedComma,
        TokenType::FSLASH => ErrorKind::MissingExpectedFSlash,
        TokenType::SEMI => ErrorKind::MissingExpectedSemiOrEOF,
        _ => return None,
    })
}

fn c09(r: &Run) -> Vec<String> {
    let mut v = Vec::new();
    let src = &r.src;
    let mut prev = 0u32;
    for e in &r.errors {
        let o = e.at_byte_offset();
        if o as usize > src.len() || !src.is_char_boundary(o as usize) {
            v.push(format!("error {:?} offset {} outside the source / not a char boundary", e.error_kind(), o));
        }
        if o < prev {
            v.push(format!("error {:?} at {} listed after an error at {}", e.error_kind(), o, prev));
        }
        prev = prev.max(o);
        if let Some(ti) = e.last_token() {
            match r.toks.get(ti.get() as usize) {
                None => v.push(format!("error {:?} names token {} which does not exist", e.error_kind(), ti.get())),
                Some(t) if t.bs as u32 > o => v.push(format!("error {:?} at {} names token {} which starts later at {}", e.error_kind(), o, ti.get(), t.bs)),
                _ => {}
            }
        }
        // missing-expected errors coincide with a zero-width recovery token
        let want_tt = match e.error_kind() {
            ErrorKind::MissingExpectedRParen => Some(TokenType::RPAREN),
            ErrorKind::MissingExpectedAssign => Some(TokenType::ASSIGN),
            ErrorKind::MissingExpectedLParen => Some(TokenType::LPAREN),
            ErrorKind::MissingExpectedComma => Some(TokenType::COMMA),
            ErrorKind::MissingExpectedFSlash => Some(TokenType::FSLASH),
            ErrorKind::MissingExpectedSemiOrEOF => Some(TokenType::SEMI),
            _ => None,
        };
        if let Some(tt) = want_tt {
            if !r.toks.iter().any(|t| t.tt == tt && t.bs == t.be && t.bs as u32 == o) {
                v.push(format!("error {:?} at {} has no zero-width {:?} recovery token at that offset", e.error_kind(), o, tt));
            }
        }
    }
    for t in &r.toks {
        if t.bs != t.be {
            continue;
        }
        if let Some(kind) = missing_kind(t.tt) {
            if t.tt == TokenType::SEMI && t.bs == src.len() {
                continue; // end-of-input semicolon
            }
            if !r.errors.iter().any(|e| e.error_kind() == kind && e.at_byte_offset() as usize == t.bs) {
                v.push(format!("zero-width {:?} token {} at {} has no {:?} error at that offset", t.tt, t.idx, t.bs, kind));
            }
        }
    }
    v
}

fn takes_args(tt: TokenType) -> bool {
    let x = tt as u16;
    x >= TokenType::KwmCmpres as u16 && x <= TokenType::KwmNrStr as u16 && tt != TokenType::KwmSysmexecdepth
}

fn c10(r: &Run) -> Vec<String> {
    use TokenType::*;
    let mut v = Vec::new();
    let mut depth = 0i64;
    let n = r.toks.len();
    for (i, t) in r.toks.iter().enumerate() {
        match t.tt {
            StringExprStart => depth += 1,
            StringExprEnd | BitTestingLiteralExprEnd | DateLiteralExprEnd | DateTimeLiteralExprEnd | NameLiteralExprEnd | TimeLiteralExprEnd | HexStringLiteralExprEnd => {
                depth -= 1;
                if depth < 0 {
                    v.push(format!("string-expression end token {} without a start", t.idx));
                    depth = 0;
                }
            }
            StringExprText => {
                if depth <= 0 {
                    v.push(format!("string-expression text token {} outside a start/end pair", t.idx));
                }
            }
            DatalinesStart => {
                if i + 2 >= n || r.toks[i + 1].tt != DatalinesData || r.toks[i + 2].tt != SEMI {
                    v.push(format!("datalines start token {} not followed by data and terminator", t.idx));
                }
            }
            DatalinesData => {
                if i == 0 || r.toks[i - 1].tt != DatalinesStart {
                    v.push(format!("datalines data token {} not preceded by a start", t.idx));
                }
            }
            MacroLabel => {
                let nx = r.toks[i + 1..].iter().find(|p| !matches!(p.tt, WS | CStyleComment));
                if !nx.map_or(false, |p| p.tt == COLON && p.ch == TokenChannel::HIDDEN) {
                    v.push(format!("macro label token {} not followed by its hidden colon", t.idx));
                }
            }
            tt if takes_args(tt) => {
                let nx = r.toks[i + 1..].iter().find(|p| !matches!(p.tt, WS | CStyleComment));
                if !nx.map_or(false, |p| p.tt == LPAREN && p.ch == t.ch) {
                    v.push(format!("built-in {:?} token {} not followed by '(' on its channel", tt, t.idx));
                }
            }
            _ => {}
        }
    }
    if depth != 0 {
        v.push(format!("{} string-expression start(s) never closed", depth));
    }
    v
}

fn c11(r: &Run) -> Vec<String> {
    reflex::compare(r)
}

pub fn payload_str(p: Payload) -> String {
    match p {
        Payload::None => "N".into(),
        Payload::Integer(i) => format!("I{i}"),
        Payload::Float(f) => format!("F{:016x}", f.to_bits()),
        Payload::StringLiteral(a, b) => format!("S{a}-{b}"),
    }
}

fn dump(r: &Run) -> String {
    let mut s = String::new();
    for t in &r.toks {
        let _ = writeln!(s, "T {} {:?} {:?} {} {} {} {} {}:{} {}:{} {}", t.idx, t.tt, t.ch, t.bs, t.be, t.cs, t.ce, t.line, t.col, t.eline, t.ecol, payload_str(t.payload));
    }
    for b in &r.bulk {
        let _ = writeln!(s, "B {} {:?} {:?} {} {} {}:{} {}:{} {}", b.token_index, b.token_type, b.channel, b.start, b.stop, b.line, b.column, b.end_line, b.end_column, payload_str(b.payload));
    }
    for e in &r.errors {
        let _ = writeln!(s, "E {:?} {} {} {}:{} {}", e.error_kind(), e.at_byte_offset(), e.at_char_offset(), e.on_line(), e.at_column(), e.last_token().map_or(-1i64, |t| i64::from(t.get())));
    }
    let _ = writeln!(s, "L {:?}", r.lit);
    let _ = writeln!(s, "N {}", r.line_count);
    s
}

fn oracle(pid: &str, run: &Run) -> Vec<String> {
    match pid {
        "C01" => c01(run),
        "C02" => c02(run),
        "C03" => c03(run),
        "C04" => c04(run),
        "C05" => c05(run),
        "C06" => c06(run),
        "C07" => c07(run),
        "C08" => c08(run),
        "C09" => c09(run),
        "C10" => c10(run),
        "C11" => c11(run),
        _ => vec![format!("no single-run oracle for {pid}")],
    }
}

fn main() {
    let args: Vec<String> = std::env::args().collect();
    if args.len() < 3 {
        eprintln!("usage: verif-replay check <PID> <file> | dump <file>");
        std::process::exit(2);
    }
    std::panic::set_hook(Box::new(|_| {}));
    if args[1] == "checkm" || args[1] == "dumpm" {
        // checkm <PID> <dir> | dumpm <dir> : every regular file of <dir>, sorted by name
        let dir = args.last().unwrap();
        let mut names: Vec<_> = std::fs::read_dir(dir).expect("dir").filter_map(|e| e.ok()).map(|e| e.path()).filter(|p| p.is_file()).collect();
        names.sort();
        for pth in names {
            let name = pth.file_name().unwrap().to_string_lossy().to_string();
            let Ok(bytes) = std::fs::read(&pth) else { continue };
            let Ok(src) = String::from_utf8(bytes) else { continue };
            print!("@@ {name}\t");
            match lex_with_watchdog(src) {
                Err(_) => {}
                Ok((src, res)) => {
                    let run = build_run(src, res);
                    if args[1] == "dumpm" {
                        println!("DUMP");
                        print!("{}", dump(&run));
                    } else {
                        let v = oracle(args[2].as_str(), &run);
                        if v.is_empty() {
                            println!("OK");
                        } else {
                            println!("FAIL {}: {}", args[2], v[0]);
                        }
                    }
                }
            }
        }
        return;
    }
    let file = args.last().unwrap();
    let src = match std::fs::read(file) {
        Ok(b) => match String::from_utf8(b) {
            Ok(s) => s,
            Err(_) => {
                eprintln!("replay file is not UTF-8");
                std::process::exit(2);
            }
        },
        Err(e) => {
            eprintln!("cannot read {file}: {e}");
            std::process::exit(2);
        }
    };
    let (src, res) = match lex_with_watchdog(src) {
        Ok(x) => x,
        Err(code) => std::process::exit(code),
    };
    let run = build_run(src, res);
    match args[1].as_str() {
        "dump" => {
            print!("{}", dump(&run));
        }
        "check" => {
            let pid = args[2].as_str();
            let v = oracle(pid, &run);
            if v.is_empty() {
                println!("OK");
            } else {
                for m in v.iter().take(10) {
                    println!("FAIL {pid}: {m}");
                }
                std::process::exit(1);
            }
        }
        "checkm" | "dumpm" => unreachable!(),
        "check-all" => {
            let mut bad = false;
            let all: [(&str, fn(&Run) -> Vec<String>); 11] = [("C01", c01), ("C02", c02), ("C03", c03), ("C04", c04), ("C05", c05), ("C06", c06), ("C07", c07), ("C08", c08), ("C09", c09), ("C10", c10), ("C11", c11)];
            for (pid, f) in all {
                for m in f(&run).iter().take(5) {
                    println!("FAIL {pid}: {m}");
                    bad = true;
                }
            }
            if bad {
                std::process::exit(1);
            }
            println!("OK");
        }
        _ => std::process::exit(2),
    }
}
