#!/usr/bin/env bash
# Builds the four native replay binaries (dev/release x plain/macro_sep) against /repo's current tree.
set -e
cd "$(dirname "$0")"
export CARGO_NET_OFFLINE=true
cp /repo/Cargo.lock Cargo.lock 2>/dev/null || true
cargo build --offline -q --target-dir target/plain 2>&1 | grep -E "^error" -A8 | head -40 || true
cargo build --offline -q --release --target-dir target/plain 2>&1 | grep -E "^error" -A8 | head -40 || true
cargo build --offline -q --features macro_sep --target-dir target/sep 2>&1 | grep -E "^error" -A8 | head -40 || true
cargo build --offline -q --release --features macro_sep --target-dir target/sep 2>&1 | grep -E "^error" -A8 | head -40 || true
# nightly toolchain build (the cfg(rustc_nightly) path of add_token), best effort
cargo +nightly build --offline -q --release --target-dir target/nightly 2>&1 | grep -E "^error" -A8 | head -20 || true
for b in target/plain/debug target/plain/release target/sep/debug target/sep/release; do
  test -x $b/verif-replay || { echo "missing $b/verif-replay"; exit 1; }
done
