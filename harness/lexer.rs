// Lexer-level harnesses (C01..C19 as tagged). Compiled inside `lexer` (mod.rs) under cfg(kani).
// Conventions (DESIGN.md §2.2): discrete tags (mode tags, first characters) are constants of a
// harness instance; everything else (followers, nesting depths, flags, look-behind types) is symbolic.
// The work buffer is replaced by the shadow buffer (buffer.rs), whose contract is proved there.

use super::buffer::verif::{any_channel, any_token_type, shadow};
use super::cursor::verif::Txt;

/// Constant prefix consumed before every step: bases are byte 3 / char 2 / line index 1, so that
/// byte, char and line offsets are pairwise different and non-zero.
pub(crate) const PFX: &str = "\u{e9}\n";

macro_rules! lx_harness {
    ($(#[$m:meta])* fn $name:ident() $body:block) => {
        #[kani::proof]
        #[kani::stub(WorkTokenizedBuffer::add_token, WorkTokenizedBuffer::sh_add_token)]
        #[kani::stub(WorkTokenizedBuffer::add_line, WorkTokenizedBuffer::sh_add_line)]
        #[kani::stub(WorkTokenizedBuffer::last_line, WorkTokenizedBuffer::sh_last_line)]
        #[kani::stub(WorkTokenizedBuffer::last_line_info, WorkTokenizedBuffer::sh_last_line_info)]
        #[kani::stub(WorkTokenizedBuffer::last_token, WorkTokenizedBuffer::sh_last_token)]
        #[kani::stub(WorkTokenizedBuffer::last_token_info, WorkTokenizedBuffer::sh_last_token_info)]
        #[kani::stub(WorkTokenizedBuffer::last_token_info_mut, WorkTokenizedBuffer::sh_last_token_info_mut)]
        #[kani::stub(WorkTokenizedBuffer::last_token_info_on_default_channel, WorkTokenizedBuffer::sh_last_token_info_on_default_channel)]
        #[kani::stub(WorkTokenizedBuffer::last_token_info_on_default_channel_mut, WorkTokenizedBuffer::sh_last_token_info_on_default_channel_mut)]
        #[kani::stub(WorkTokenizedBuffer::line_count, WorkTokenizedBuffer::sh_line_count)]
        #[kani::stub(WorkTokenizedBuffer::token_count, WorkTokenizedBuffer::sh_token_count)]
        #[kani::stub(WorkTokenizedBuffer::next_string_literal_start, WorkTokenizedBuffer::sh_next_string_literal_start)]
        #[kani::stub(WorkTokenizedBuffer::add_string_literal, WorkTokenizedBuffer::sh_add_string_literal)]
        #[kani::stub(WorkTokenizedBuffer::checkpoint, WorkTokenizedBuffer::sh_checkpoint)]
        #[kani::stub(WorkTokenizedBuffer::rollback, WorkTokenizedBuffer::sh_rollback)]
        $(#[$m])*
        fn $name() $body
    };
}

// ---------------------------------------------------------------------------------------------
// stubs for leaves that are out of CBMC's reach (DESIGN.md §2.4)

/// unicode_ident tables: exact on ASCII, arbitrary on non-ASCII (with start => continue).
pub(crate) fn stub_xid_continue(c: char) -> bool {
    if c.is_ascii() {
        c.is_ascii_alphanumeric() || c == '_'
    } else {
        kani::any()
    }
}
pub(crate) fn stub_xid_start(c: char) -> bool {
    if c.is_ascii() {
        c.is_ascii_alphabetic()
    } else {
        kani::any()
    }
}

// ---------------------------------------------------------------------------------------------

pub(crate) fn rank(m: &LexerMode) -> u8 {
    match m {
        LexerMode::MacroDo | LexerMode::MacroLocalGlobal { .. } | LexerMode::MacroDefArg => 5,
        LexerMode::MacroCallArgOrValue { .. } | LexerMode::MaybeMacroDefArgs | LexerMode::MacroDefNextArgOrDefaultValue => 4,
        LexerMode::MaybeMacroCallArgsOrLabel { .. } | LexerMode::MaybeMacroCallArgAssign { .. } | LexerMode::MaybeTailMacroArgValue => 3,
        LexerMode::Default
        | LexerMode::StringExpr { .. }
        | LexerMode::MacroEval { .. }
        | LexerMode::MacroCallValue { .. }
        | LexerMode::MacroStrQuotedExpr { .. }
        | LexerMode::MacroNameExpr(..)
        | LexerMode::MacroDefName
        | LexerMode::MacroSemiTerminatedTextExpr
        | LexerMode::MacroStatOptionsTextExpr => 2,
        LexerMode::ExpectSymbol(..) | LexerMode::ExpectSemiOrEOF => 1,
        LexerMode::WsOrCStyleCommentOnly | LexerMode::MakeCheckpoint => 0,
    }
}

/// Lexer positioned after the constant prefix of `t`, with the given mode stack (bottom first),
/// shadow buffer reset, first line(s) recorded through the real plumbing.
pub(crate) fn setup<'a, const K: usize, const B: usize>(t: &'a Txt<K, B>, modes: &[LexerMode]) -> Lexer<'a> {
    let src = t.as_str();
    shadow::reset(src.len());
    let buffer = WorkTokenizedBuffer::verif_new(src.len(), 4);
    let cursor = cursor::Cursor::new(src);
    let mut mode_stack = Vec::with_capacity(24);
    let mut i = 0;
    while i < modes.len() {
        mode_stack.push(modes[i].clone());
        i += 1;
    }
    let mut lx = Lexer {
        source: src,
        source_len: src.len() as u32,
        buffer,
        cursor,
        cur_token_byte_offset: ByteOffset::new(0),
        cur_token_start: CharOffset::new(0),
        cur_token_line: super::buffer::verif::line_idx(0),
        #[cfg(debug_assertions)]
        last_state: (src.len() as u32, Vec::new()),
        mode_stack,
        errors: Vec::with_capacity(8),
        checkpoint: None,
        macro_nesting_level: 0,
        pending_stat_stack: BitVec::from_elem(1, false),
    };
    lx.buffer.add_line(ByteOffset::new(0), CharOffset::new(0));
    // consume the constant prefix the way every scanner does
    let mut it = PFX.chars();
    while let Some(c) = it.next() {
        lx.cursor.advance();
        if c == '\n' {
            lx.add_line();
        }
    }
    lx.start_token();
    lx
}

/// how many new tokens / errors of one step the common checker inspects (more is a harness failure)
pub(crate) const NEW_TOK_MAX: usize = 4;
pub(crate) const NEW_ERR_MAX: usize = 3;

pub(crate) struct Pre {
    pub(crate) pi: usize,
    pub(crate) tok_n: usize,
    pub(crate) line_n: usize,
    pub(crate) lit_n: usize,
    pub(crate) err_n: usize,
    pub(crate) stack_len: usize,
    pub(crate) top_rank: u8,
    pub(crate) had_checkpoint: bool,
}

pub(crate) fn snapshot<const K: usize, const B: usize>(lx: &Lexer, t: &Txt<K, B>) -> Pre {
    let p = lx.cur_byte_offset().get() as usize;
    Pre {
        pi: t.idx_of(p).unwrap(),
        tok_n: shadow::tok_n(),
        line_n: shadow::line_n(),
        lit_n: shadow::lit_n(),
        err_n: lx.errors.len(),
        stack_len: lx.mode_stack.len(),
        top_rank: lx.mode_stack.last().map_or(0, rank),
        had_checkpoint: lx.checkpoint.is_some(),
    }
}

/// Post-state invariants shared by every step harness: POS (C03), LINE (C04), TOK (C02/C03/C04),
/// error records (C01 no 9xxx, C03/C04/C09 anchoring). Returns the char index of the cursor.
pub(crate) fn check_common<const K: usize, const B: usize>(lx: &Lexer, t: &Txt<K, B>, pre: &Pre) -> usize {
    // POS
    let p = lx.cur_byte_offset().get() as usize;
    let pi_opt = t.idx_of(p);
    assert!(pi_opt.is_some(), "C03: cursor byte position is not a character boundary");
    let pi = pi_opt.unwrap();
    assert!(lx.cursor.char_offset() == t.char_at(pi), "C03: cursor char offset is not the code-point index of its byte offset");
    // LINE: one entry per line feed passed, each just past its line feed
    let ln = shadow::line_n();
    assert!(ln as u32 == 1 + t.pre_nl + t.nl_upto(pi), "C04: line entries != 1 + line feeds consumed");
    let mut li = (1 + t.pre_nl) as usize;
    let mut i = 0;
    while i < K {
        if i < pi && t.ch[i] == '\n' {
            let (lb, lc) = shadow::line(li);
            assert!(lb as usize == t.byte_at(i + 1) && lc == t.char_at(i + 1), "C04: line entry is not just past its line feed");
            li += 1;
        }
        i += 1;
    }
    // TOK: new tokens are cursor snapshots in non-decreasing order, at or before the cursor
    let tn = shadow::tok_n();
    let mut prev_b = if pre.tok_n > 0 && pre.tok_n <= tn { shadow::tok(pre.tok_n - 1).byte_offset.get() } else { 0 };
    assert!(tn <= pre.tok_n + NEW_TOK_MAX || tn < pre.tok_n, "harness: more new tokens than the checker inspects");
    let mut jj = 0;
    while jj < NEW_TOK_MAX {
        let j = pre.tok_n + jj;
        if j < tn {
            let tk = shadow::tok(j);
            let b = tk.byte_offset.get();
            assert!(b >= prev_b, "C02: token start offsets decrease");
            assert!(b as usize <= p, "C02: token starts after the cursor");
            let bi = t.idx_of(b as usize);
            assert!(bi.is_some(), "C02/C03: token start is not a character boundary");
            let bi = bi.unwrap();
            assert!(tk.start.get() == t.char_at(bi), "C03: token char offset is not the code-point index of its byte offset");
            assert!(super::buffer::verif::line_idx_get(tk.line) == t.pre_nl + t.nl_upto(bi), "C04: token line is not the number of line feeds before its start");
            assert!(tk.token_type != TokenType::EOF, "C02: EOF token before the end of lexing");
            prev_b = b;
        }
        jj += 1;
    }
    // errors
    let en = lx.errors.len();
    let mut prev_e = 0u32;
    assert!(en <= pre.err_n + NEW_ERR_MAX || en < pre.err_n, "harness: more new errors than the checker inspects");
    let mut jj = 0;
    while jj < NEW_ERR_MAX {
        let j = pre.err_n + jj;
        if j < en {
            let e = lx.errors[j];
            assert!(!e.error_kind().is_internal(), "C01: internal (9xxx) error reported");
            let ei = t.idx_of(e.at_byte_offset() as usize);
            assert!(ei.is_some(), "C09/C03: error byte offset is not a character boundary");
            let ei = ei.unwrap();
            assert!(e.at_char_offset() == t.char_at(ei), "C03: error char offset is not the code-point index of its byte offset");
            assert!(e.on_line() == 1 + t.pre_nl + t.nl_upto(ei), "C04: error line");
            assert!(e.at_column() == t.char_at(ei) - t.line_start(ei).1, "C04: error column");
            assert!(e.at_byte_offset() >= prev_e, "C09: errors out of source order");
            prev_e = e.at_byte_offset();
            match e.last_token() {
                Some(k) => {
                    assert!((k.get() as usize) < tn, "C09: error names a token that is not in the buffer");
                    assert!(shadow::tok(k.get() as usize).byte_offset.get() <= e.at_byte_offset(), "C09: error names a token that starts after it");
                }
                None => assert!(tn == 0 || pre.tok_n == 0, "C09: error without a last token although tokens exist"),
            }
        }
        jj += 1;
    }
    pi
}

/// Progress contract of one main-loop step (DESIGN.md §4.C01). `next` = the unconsumed next char.
pub(crate) fn check_progress<const K: usize, const B: usize, const MAXPUSH: usize>(lx: &Lexer, t: &Txt<K, B>, pre: &Pre, pi: usize) {
    let n = lx.mode_stack.len();
    let consumed = pi > pre.pi;
    let popped = pi == pre.pi && n < pre.stack_len;
    // ranked replace: everything at or above the old top's position has a smaller rank than the old top
    let mut ranked = pi == pre.pi && n >= pre.stack_len && pre.stack_len >= 1;
    let mut k = 0;
    while k < MAXPUSH {
        let i = pre.stack_len - 1 + k;
        if pre.stack_len >= 1 && i < n && rank(&lx.mode_stack[i]) >= pre.top_rank {
            ranked = false;
        }
        k += 1;
    }
    assert!(n < pre.stack_len + MAXPUSH, "C01: more modes pushed in one step than this function may push");
    // push with guaranteed consumer: Ws mode on top and the next char is whitespace or starts a comment
    let nx = if pi < t.n { Some(t.ch[pi]) } else { None };
    let nx2 = if pi + 1 < t.n { Some(t.ch[pi + 1]) } else { None };
    let ws_follows = nx.map_or(false, char::is_whitespace) || (nx == Some('/') && nx2 == Some('*'));
    let push_consumer = pi == pre.pi && n > pre.stack_len && matches!(lx.mode_stack.last(), Some(LexerMode::WsOrCStyleCommentOnly)) && ws_follows;
    // rollback: a live checkpoint was consumed
    let rolled_back = pre.had_checkpoint && lx.checkpoint.is_none() && pi <= pre.pi;
    assert!(consumed || popped || ranked || push_consumer || rolled_back, "C01: step neither consumes input nor makes ranked progress on the mode stack");
    // bounded output
    let added = shadow::tok_n() as i64 - pre.tok_n as i64;
    let eaten = pi as i64 - pre.pi as i64;
    assert!(added <= eaten.max(0) + 3, "C01: more tokens emitted than characters consumed + 3");
}

/// Text of new token j as a char-index range [s, e): from its start to the next token's start or the cursor.
pub(crate) fn tok_range<const K: usize, const B: usize>(t: &Txt<K, B>, j: usize, pi: usize) -> (usize, usize) {
    let s = t.idx_of(shadow::tok(j).byte_offset.get() as usize).unwrap();
    let e = if j + 1 < shadow::tok_n() { t.idx_of(shadow::tok(j + 1).byte_offset.get() as usize).unwrap() } else { pi };
    (s, e)
}

// =============================================================================================
// Scanners

macro_rules! lx_ws_harness {
    ($k:literal, $b:literal, $uw:literal, $name:ident) => {
        lx_harness! {
            #[kani::unwind($uw)]
            fn $name() {
                let t = Txt::<$k, $b>::any(PFX, &[]);
                kani::assume(t.n >= 1 && t.ch[0].is_whitespace());
                let mut lx = setup(&t, &[LexerMode::Default, LexerMode::WsOrCStyleCommentOnly]);
                let pre = snapshot(&lx, &t);
                lx.lex_ws();
                let pi = check_common(&lx, &t, &pre);
                check_progress::<$k, $b, 2>(&lx, &t, &pre, pi);
                // C06: exactly one hidden WS token, its text is the maximal whitespace run
                assert!(shadow::tok_n() == pre.tok_n + 1, "C06: lex_ws emits exactly one token");
                let tk = shadow::tok(pre.tok_n);
                assert!(tk.token_type == TokenType::WS && tk.channel == TokenChannel::HIDDEN, "C06: whitespace is a hidden WS token");
                let (s, e) = tok_range(&t, pre.tok_n, pi);
                assert!(s == pre.pi && e == pi && e > s, "C06/C02: WS token spans the consumed text and is non-empty");
                let mut i = 0;
                while i < $k {
                    if i >= s && i < e {
                        assert!(t.ch[i].is_whitespace(), "C06: WS token contains a non-whitespace character");
                    }
                    i += 1;
                }
                assert!(pi == t.n || !t.ch[pi].is_whitespace(), "C11/C06: whitespace run is maximal");
                assert!(lx.mode_stack.len() == pre.stack_len && lx.errors.len() == pre.err_n, "C01: lex_ws touches neither modes nor errors");
                kani::cover!(pi == $k && t.nl_upto(pi) >= 2, "several line feeds consumed");
                kani::cover!(pi < t.n && t.len - t.pre_b > t.n, "stopped before a multi-byte character");
                kani::cover!(t.ch[0] == '\u{3000}', "non-ASCII whitespace");
                std::mem::forget(lx);
            }
        }
    };
}
lx_ws_harness!(2, 12, 6, lx_ws_k2);
lx_ws_harness!(3, 16, 6, lx_ws_k3);
