// Lexer-level harnesses (C01..C19 as tagged). Compiled inside `lexer` (mod.rs) under cfg(kani).
// Conventions (DESIGN.md §2.2): discrete tags (mode tags, first characters) are constants of a
// harness instance; everything else (followers, nesting depths, flags, look-behind types) is symbolic.
// The work buffer is replaced by the shadow buffer (buffer.rs), whose contract is proved there.

use super::buffer::verif::{any_channel, any_token_type, shadow};
use super::cursor::verif::Txt;

/// Constant prefix consumed before every step: bases are byte 3 / char 2 / line index 1, so that
/// byte, char and line offsets are pairwise different and non-zero.
pub(crate) const PFX: &str = "\u{e9}\n";

macro_rules! lx_harness {
    ($(#[$m:meta])* fn $name:ident() $body:block) => {
        #[kani::proof]
        #[kani::stub(WorkTokenizedBuffer::add_token, WorkTokenizedBuffer::sh_add_token)]
        #[kani::stub(WorkTokenizedBuffer::add_line, WorkTokenizedBuffer::sh_add_line)]
        #[kani::stub(WorkTokenizedBuffer::last_line, WorkTokenizedBuffer::sh_last_line)]
        #[kani::stub(WorkTokenizedBuffer::last_line_info, WorkTokenizedBuffer::sh_last_line_info)]
        #[kani::stub(WorkTokenizedBuffer::last_token, WorkTokenizedBuffer::sh_last_token)]
        #[kani::stub(WorkTokenizedBuffer::last_token_info, WorkTokenizedBuffer::sh_last_token_info)]
        #[kani::stub(WorkTokenizedBuffer::last_token_info_mut, WorkTokenizedBuffer::sh_last_token_info_mut)]
        #[kani::stub(WorkTokenizedBuffer::last_token_info_on_default_channel, WorkTokenizedBuffer::sh_last_token_info_on_default_channel)]
        #[kani::stub(WorkTokenizedBuffer::last_token_info_on_default_channel_mut, WorkTokenizedBuffer::sh_last_token_info_on_default_channel_mut)]
        #[kani::stub(WorkTokenizedBuffer::line_count, WorkTokenizedBuffer::sh_line_count)]
        #[kani::stub(WorkTokenizedBuffer::token_count, WorkTokenizedBuffer::sh_token_count)]
        #[kani::stub(WorkTokenizedBuffer::next_string_literal_start, WorkTokenizedBuffer::sh_next_string_literal_start)]
        #[kani::stub(WorkTokenizedBuffer::add_string_literal, WorkTokenizedBuffer::sh_add_string_literal)]
        #[kani::stub(WorkTokenizedBuffer::checkpoint, WorkTokenizedBuffer::sh_checkpoint)]
        #[kani::stub(WorkTokenizedBuffer::rollback, WorkTokenizedBuffer::sh_rollback)]
        #[kani::stub(Lexer::emit_error, Lexer::sh_emit_error)]
        #[kani::stub(Lexer::emit_error_info, Lexer::sh_emit_error_info)]
        #[kani::stub(Lexer::push_mode, Lexer::sh_push_mode)]
        #[kani::stub(parse_sas_hex_string, stub_hex_string)]
        #[kani::stub(unicode_ident::is_xid_start, det_xid_start)]
        #[kani::stub(unicode_ident::is_xid_continue, det_xid_continue)]
        $(#[$m])*
        fn $name() $body
    };
}

// ---------------------------------------------------------------------------------------------
// `Vec::push` drags the growth/realloc paths into every query (CBMC ran out of memory at 20 GB on a
// 4-char scanner harness). The error list and the mode stack are pre-allocated by `setup`; these
// stand-ins append into the spare capacity (push semantics, capacity overflow is an assertion), so
// `len()`, `truncate()`, `pop()`, `last()` and indexing on the real vectors keep their meaning.
pub(crate) const ERR_CAP: usize = 8;
pub(crate) const MODE_CAP: usize = 24;

impl<'src> Lexer<'src> {
    pub(crate) fn sh_emit_error_info(&mut self, error_info: ErrorInfo) {
        let len = self.errors.len();
        assert!(len < ERR_CAP, "harness: error capacity");
        unsafe {
            std::ptr::write(self.errors.as_mut_ptr().add(len), error_info);
            self.errors.set_len(len + 1);
        }
    }
    pub(crate) fn sh_emit_error(&mut self, error: ErrorKind) {
        let info = self.prep_error_info_at_cur_offset(error);
        self.sh_emit_error_info(info);
    }
    pub(crate) fn sh_push_mode(&mut self, mode: LexerMode) {
        let len = self.mode_stack.len();
        assert!(len < MODE_CAP, "harness: mode stack capacity");
        unsafe {
            std::ptr::write(self.mode_stack.as_mut_ptr().add(len), mode);
            self.mode_stack.set_len(len + 1);
        }
    }
}

// ---------------------------------------------------------------------------------------------
// stubs for leaves that are out of CBMC's reach (DESIGN.md §2.4)

/// unicode_ident tables: exact on ASCII, arbitrary on non-ASCII (with start => continue).
pub(crate) fn stub_xid_continue(c: char) -> bool {
    if c.is_ascii() {
        c.is_ascii_alphanumeric() || c == '_'
    } else {
        kani::any()
    }
}
pub(crate) fn stub_xid_start(c: char) -> bool {
    if c.is_ascii() {
        c.is_ascii_alphabetic()
    } else {
        kani::any()
    }
}

// ---------------------------------------------------------------------------------------------

pub(crate) fn rank(m: &LexerMode) -> u8 {
    match m {
        LexerMode::MacroDo | LexerMode::MacroLocalGlobal { .. } | LexerMode::MacroDefArg => 5,
        LexerMode::MacroCallArgOrValue { .. } | LexerMode::MaybeMacroDefArgs | LexerMode::MacroDefNextArgOrDefaultValue => 4,
        LexerMode::MaybeMacroCallArgsOrLabel { .. } | LexerMode::MaybeMacroCallArgAssign { .. } | LexerMode::MaybeTailMacroArgValue => 3,
        LexerMode::Default
        | LexerMode::StringExpr { .. }
        | LexerMode::MacroEval { .. }
        | LexerMode::MacroCallValue { .. }
        | LexerMode::MacroStrQuotedExpr { .. }
        | LexerMode::MacroNameExpr(..)
        | LexerMode::MacroDefName
        | LexerMode::MacroSemiTerminatedTextExpr
        | LexerMode::MacroStatOptionsTextExpr => 2,
        LexerMode::ExpectSymbol(..) | LexerMode::ExpectSemiOrEOF => 1,
        LexerMode::WsOrCStyleCommentOnly | LexerMode::MakeCheckpoint => 0,
    }
}

/// Lexer positioned after the constant prefix of `t`, with the given mode stack (bottom first),
/// shadow buffer reset, first line(s) recorded through the real plumbing.
pub(crate) fn setup<'a, const K: usize, const B: usize>(t: &'a Txt<K, B>, modes: &[LexerMode]) -> Lexer<'a> {
    let src = t.as_str();
    shadow::reset(src.len());
    shadow::set_source(src);
    let buffer = WorkTokenizedBuffer::verif_new(src.len(), 4);
    let cursor = cursor::Cursor::new(src);
    let mut mode_stack = Vec::with_capacity(MODE_CAP);
    let mut i = 0;
    while i < modes.len() {
        mode_stack.push(modes[i].clone());
        i += 1;
    }
    let mut lx = Lexer {
        source: src,
        source_len: src.len() as u32,
        buffer,
        cursor,
        cur_token_byte_offset: ByteOffset::new(0),
        cur_token_start: CharOffset::new(0),
        cur_token_line: super::buffer::verif::line_idx(0),
        #[cfg(debug_assertions)]
        last_state: (src.len() as u32, Vec::new()),
        mode_stack,
        errors: Vec::with_capacity(ERR_CAP),
        checkpoint: None,
        macro_nesting_level: 0,
        pending_stat_stack: BitVec::from_elem(1, false),
    };
    lx.buffer.add_line(ByteOffset::new(0), CharOffset::new(0));
    // consume the constant prefix the way every scanner does
    let mut it = PFX.chars();
    while let Some(c) = it.next() {
        lx.cursor.advance();
        if c == '\n' {
            lx.add_line();
        }
    }
    lx.start_token();
    // error history: nothing the lexer does may depend on what was reported earlier; one earlier error
    // of an arbitrary kind at the current position makes that part of every pre-state
    if kani::any() {
        let kind = match kani::any::<u8>() % 3 {
            0 => ErrorKind::OpenCodeRecursionError,
            1 => ErrorKind::MissingExpectedRParen,
            _ => ErrorKind::UnterminatedStringLiteral,
        };
        lx.sh_emit_error(kind);
    }
    lx
}

/// how many new tokens / errors of one step the common checker inspects (more is a harness failure)
pub(crate) const NEW_TOK_MAX: usize = 3;
pub(crate) const NEW_ERR_MAX: usize = 2;

pub(crate) struct Pre {
    pub(crate) pi: usize,
    pub(crate) tok_n: usize,
    pub(crate) line_n: usize,
    pub(crate) lit_n: usize,
    pub(crate) err_n: usize,
    pub(crate) stack_len: usize,
    pub(crate) top_rank: u8,
    pub(crate) had_checkpoint: bool,
}

pub(crate) fn snapshot<const K: usize, const B: usize>(lx: &Lexer, t: &Txt<K, B>) -> Pre {
    let p = lx.cur_byte_offset().get() as usize;
    Pre {
        pi: t.idx_of(p).unwrap(),
        tok_n: shadow::tok_n(),
        line_n: shadow::line_n(),
        lit_n: shadow::lit_n(),
        err_n: lx.errors.len(),
        stack_len: lx.mode_stack.len(),
        top_rank: lx.mode_stack.last().map_or(0, rank),
        had_checkpoint: lx.checkpoint.is_some(),
    }
}

/// Post-state invariants shared by every step harness: POS (C03), LINE (C04), TOK (C02/C03/C04),
/// error records (C01 no 9xxx, C03/C04/C09 anchoring). Returns the char index of the cursor.
pub(crate) fn check_common<const K: usize, const B: usize>(lx: &Lexer, t: &Txt<K, B>, pre: &Pre) -> usize {
    // POS
    let p = lx.cur_byte_offset().get() as usize;
    let pi_opt = t.idx_of(p);
    assert!(pi_opt.is_some(), "C03: cursor byte position is not a character boundary");
    let pi = pi_opt.unwrap();
    assert!(lx.cursor.char_offset() == t.char_at(pi), "C03: cursor char offset is not the code-point index of its byte offset");
    // LINE: one entry per line feed passed, each just past its line feed
    let ln = shadow::line_n();
    assert!(ln as u32 == 1 + t.pre_nl + t.nl_upto(pi), "C04: line entries != 1 + line feeds consumed");
    let mut li = (1 + t.pre_nl) as usize;
    let mut i = 0;
    while i < K {
        if i < pi && t.ch[i] == '\n' {
            let (lb, lc) = shadow::line(li);
            assert!(lb as usize == t.byte_at(i + 1) && lc == t.char_at(i + 1), "C04: line entry is not just past its line feed");
            li += 1;
        }
        i += 1;
    }
    // TOK: new tokens are cursor snapshots in non-decreasing order, at or before the cursor
    let tn = shadow::tok_n();
    let mut prev_b = if pre.tok_n > 0 && pre.tok_n <= tn { shadow::tok(pre.tok_n - 1).byte_offset.get() } else { 0 };
    assert!(tn <= pre.tok_n + NEW_TOK_MAX || tn < pre.tok_n, "harness: more new tokens than the checker inspects");
    let mut jj = 0;
    while jj < NEW_TOK_MAX {
        let j = pre.tok_n + jj;
        if j < tn {
            let tk = shadow::tok(j);
            let b = tk.byte_offset.get();
            assert!(b >= prev_b, "C02: token start offsets decrease");
            assert!(b as usize <= p, "C02: token starts after the cursor");
            let bi = t.idx_of(b as usize);
            assert!(bi.is_some(), "C02/C03: token start is not a character boundary");
            let bi = bi.unwrap();
            assert!(tk.start.get() == t.char_at(bi), "C03: token char offset is not the code-point index of its byte offset");
            assert!(super::buffer::verif::line_idx_get(tk.line) == t.pre_nl + t.nl_upto(bi), "C04: token line is not the number of line feeds before its start");
            assert!(tk.token_type != TokenType::EOF, "C02: EOF token before the end of lexing");
            prev_b = b;
        }
        jj += 1;
    }
    // errors
    let en = lx.errors.len();
    let mut prev_e = 0u32;
    assert!(en <= pre.err_n + NEW_ERR_MAX || en < pre.err_n, "harness: more new errors than the checker inspects");
    let mut jj = 0;
    while jj < NEW_ERR_MAX {
        let j = pre.err_n + jj;
        if j < en {
            let e = lx.errors[j];
            assert!(!e.error_kind().is_internal(), "C01: internal (9xxx) error reported");
            let ei = t.idx_of(e.at_byte_offset() as usize);
            assert!(ei.is_some(), "C09/C03: error byte offset is not a character boundary");
            let ei = ei.unwrap();
            assert!(e.at_char_offset() == t.char_at(ei), "C03: error char offset is not the code-point index of its byte offset");
            assert!(e.on_line() == 1 + t.pre_nl + t.nl_upto(ei), "C04: error line");
            assert!(e.at_column() == t.char_at(ei) - t.line_start(ei).1, "C04: error column");
            assert!(e.at_byte_offset() >= prev_e, "C09: errors out of source order");
            prev_e = e.at_byte_offset();
            match e.last_token() {
                Some(k) => {
                    assert!((k.get() as usize) < tn, "C09: error names a token that is not in the buffer");
                    assert!(shadow::tok(k.get() as usize).byte_offset.get() <= e.at_byte_offset(), "C09: error names a token that starts after it");
                }
                None => assert!(tn == 0 || pre.tok_n == 0, "C09: error without a last token although tokens exist"),
            }
        }
        jj += 1;
    }
    pi
}

/// Progress contract of one main-loop step (DESIGN.md §4.C01). `next` = the unconsumed next char.
pub(crate) fn check_progress<const K: usize, const B: usize, const MAXPUSH: usize>(lx: &Lexer, t: &Txt<K, B>, pre: &Pre, pi: usize) {
    let n = lx.mode_stack.len();
    let consumed = pi > pre.pi;
    let popped = pi == pre.pi && n < pre.stack_len;
    // ranked replace: everything at or above the old top's position has a smaller rank than the old top
    let mut ranked = pi == pre.pi && n >= pre.stack_len && pre.stack_len >= 1;
    let mut k = 0;
    while k < MAXPUSH {
        let i = pre.stack_len - 1 + k;
        if pre.stack_len >= 1 && i < n && rank(&lx.mode_stack[i]) >= pre.top_rank {
            ranked = false;
        }
        k += 1;
    }
    assert!(n < pre.stack_len + MAXPUSH, "C01: more modes pushed in one step than this function may push");
    // push with guaranteed consumer: Ws mode on top and the next char is whitespace or starts a comment
    let nx = if pi < t.n { Some(t.ch[pi]) } else { None };
    let nx2 = if pi + 1 < t.n { Some(t.ch[pi + 1]) } else { None };
    let ws_follows = nx.map_or(false, char::is_whitespace) || (nx == Some('/') && nx2 == Some('*'));
    let push_consumer = pi == pre.pi && n > pre.stack_len && matches!(lx.mode_stack.last(), Some(LexerMode::WsOrCStyleCommentOnly)) && ws_follows;
    // rollback: a live checkpoint was consumed
    let rolled_back = pre.had_checkpoint && lx.checkpoint.is_none() && pi <= pre.pi;
    assert!(consumed || popped || ranked || push_consumer || rolled_back, "C01: step neither consumes input nor makes ranked progress on the mode stack");
    // bounded output
    let added = shadow::tok_n() as i64 - pre.tok_n as i64;
    let eaten = pi as i64 - pre.pi as i64;
    assert!(added <= eaten.max(0) + 3, "C01: more tokens emitted than characters consumed + 3");
}

/// Text of new token j as a char-index range [s, e): from its start to the next token's start or the cursor.
pub(crate) fn tok_range<const K: usize, const B: usize>(t: &Txt<K, B>, j: usize, pi: usize) -> (usize, usize) {
    let s = t.idx_of(shadow::tok(j).byte_offset.get() as usize).unwrap();
    let e = if j + 1 < shadow::tok_n() { t.idx_of(shadow::tok(j + 1).byte_offset.get() as usize).unwrap() } else { pi };
    (s, e)
}

// =============================================================================================
// Scanners

macro_rules! lx_ws_harness {
    ($k:literal, $b:literal, $uw:literal, $name:ident) => {
        lx_harness! {
            #[kani::unwind($uw)]
            fn $name() {
                let t = Txt::<$k, $b>::any(PFX, &[]);
                kani::assume(t.n >= 1 && t.ch[0].is_whitespace());
                let mut lx = setup(&t, &[LexerMode::Default, LexerMode::WsOrCStyleCommentOnly]);
                let pre = snapshot(&lx, &t);
                lx.lex_ws();
                let pi = check_common(&lx, &t, &pre);
                check_progress::<$k, $b, 2>(&lx, &t, &pre, pi);
                // C06: exactly one hidden WS token, its text is the maximal whitespace run
                assert!(shadow::tok_n() == pre.tok_n + 1, "C06: lex_ws emits exactly one token");
                let tk = shadow::tok(pre.tok_n);
                assert!(tk.token_type == TokenType::WS && tk.channel == TokenChannel::HIDDEN, "C06: whitespace is a hidden WS token");
                let (s, e) = tok_range(&t, pre.tok_n, pi);
                assert!(s == pre.pi && e == pi && e > s, "C06/C02: WS token spans the consumed text and is non-empty");
                let mut i = 0;
                while i < $k {
                    if i >= s && i < e {
                        assert!(t.ch[i].is_whitespace(), "C06: WS token contains a non-whitespace character");
                    }
                    i += 1;
                }
                assert!(pi == t.n || !t.ch[pi].is_whitespace(), "C11/C06: whitespace run is maximal");
                assert!(lx.mode_stack.len() == pre.stack_len && lx.errors.len() == pre.err_n, "C01: lex_ws touches neither modes nor errors");
                kani::cover!(pi == $k && t.nl_upto(pi) >= 2, "several line feeds consumed");
                kani::cover!(pi < t.n && t.len - t.pre_b > t.n, "stopped before a multi-byte character");
                kani::cover!(t.ch[0] == '\u{3000}', "non-ASCII whitespace");
                std::mem::forget(lx);
            }
        }
    };
}
lx_ws_harness!(2, 12, 5, lx_ws_k2);
lx_ws_harness!(3, 16, 5, lx_ws_k3);

// ---------------------------------------------------------------------------------------------
// deterministic stand-ins for the unicode_ident tables on non-ASCII input (exact on ASCII). Any
// fixed predicate with start => continue will do: no property depends on the table's content.
pub(crate) fn det_xid_start(c: char) -> bool {
    if c.is_ascii() {
        c.is_ascii_alphabetic()
    } else {
        (c as u32) & 1 == 1
    }
}
pub(crate) fn det_xid_continue(c: char) -> bool {
    if c.is_ascii() {
        c.is_ascii_alphanumeric() || c == '_'
    } else {
        (c as u32) & 3 != 0
    }
}
pub(crate) fn ref_name_start(c: char) -> bool {
    det_xid_start(c) || c == '_'
}
/// reference: `&`+ run starting at i is a macro var expression (followed by a name start); returns (is_macro, amp_count)
pub(crate) fn ref_macro_amp<const K: usize, const B: usize>(t: &Txt<K, B>, i: usize) -> (bool, usize) {
    let mut j = i;
    let mut k = 0;
    while k < K {
        if j < t.n && t.ch[j] == '&' && j == i + k {
            j += 1;
        }
        k += 1;
    }
    (j < t.n && ref_name_start(t.ch[j]), j - i)
}
pub(crate) fn ch_at<const K: usize, const B: usize>(t: &Txt<K, B>, i: usize) -> Option<char> {
    if i < t.n {
        Some(t.ch[i])
    } else {
        None
    }
}
/// reference: `%` at i followed by `*` or a name start
pub(crate) fn ref_macro_percent<const K: usize, const B: usize>(t: &Txt<K, B>, i: usize) -> bool {
    match ch_at(t, i + 1) {
        Some('*') => true,
        Some(c) => ref_name_start(c),
        None => false,
    }
}

/// C07: the payload of a new token whose content is chars [s,e): the sections appended to the literal
/// buffer during the step are, in order, exactly the kept chars (every kept char inside one section,
/// every dropped char in none), the payload range is what the step appended; no payload <=> nothing
/// dropped and nothing appended.
pub(crate) fn check_payload<const K: usize, const B: usize, const NSEC: usize>(t: &Txt<K, B>, s: usize, e: usize, kept: &[bool; K], payload: Payload, lit_before: usize) {
    let mut dropped = false;
    let mut kept_bytes = 0usize;
    let mut i = 0;
    while i < K {
        if i >= s && i < e && i < t.n {
            if kept[i] {
                kept_bytes += t.ch[i].len_utf8();
            } else {
                dropped = true;
            }
        }
        i += 1;
    }
    match payload {
        Payload::None => {
            assert!(!dropped, "C07: token without payload although its content needs unquoting");
            assert!(shadow::lit_n() == lit_before && shadow::sec_n() == 0, "C07: literal buffer grew for a token without payload");
        }
        Payload::StringLiteral(a, b) => {
            assert!(a as usize == lit_before, "C07: payload does not start at the previous end of the literal buffer");
            assert!(b as usize == shadow::lit_n() && b >= a, "C07: payload does not end at the end of the literal buffer");
            assert!((b - a) as usize == kept_bytes, "C07: payload length differs from the unquoted content");
            // sections in source order, char i covered iff kept
            let sn = shadow::sec_n();
            assert!(sn <= NSEC, "harness: more literal sections than the checker inspects");
            let mut prev_end = 0usize;
            let mut j = 0;
            while j < NSEC {
                if j < sn {
                    let (off, len) = shadow::sec(j);
                    assert!(off != usize::MAX && off >= prev_end, "C07: literal sections out of source order");
                    prev_end = off + len;
                }
                j += 1;
            }
            let mut i = 0;
            while i < K {
                if i < t.n {
                    let cs = t.start[i];
                    let ce = cs + t.ch[i].len_utf8();
                    let mut covered = false;
                    let mut j = 0;
                    while j < NSEC {
                        if j < sn {
                            let (off, len) = shadow::sec(j);
                            if off <= cs && ce <= off + len {
                                covered = true;
                            }
                        }
                        j += 1;
                    }
                    assert!(covered == (i >= s && i < e && kept[i]), "C07: payload differs from the unquoted content");
                }
                i += 1;
            }
        }
        _ => assert!(false, "C07: string token with a numeric payload"),
    }
}

macro_rules! lx_cstyle_harness {
    ($k:literal, $b:literal, $uw:literal, $name:ident) => {
        lx_harness! {
            #[kani::unwind($uw)]
            fn $name() {
                let t = Txt::<$k, $b>::any(PFX, &['/', '*']);
                let mut lx = setup(&t, &[LexerMode::Default]);
                let pre = snapshot(&lx, &t);
                lx.lex_cstyle_comment();
                let pi = check_common(&lx, &t, &pre);
                check_progress::<$k, $b, 2>(&lx, &t, &pre, pi);
                // reference: first "*/" whose '*' lies after the opener
                let mut end = t.n;
                let mut closed = false;
                let mut i = 2;
                while i < $k {
                    if !closed && i + 1 < t.n && t.ch[i] == '*' && t.ch[i + 1] == '/' {
                        end = i + 2;
                        closed = true;
                    }
                    i += 1;
                }
                assert!(pi == end, "C06/C11: comment does not end at the first closing delimiter");
                assert!(shadow::tok_n() == pre.tok_n + 1, "C06: one comment token");
                let tk = shadow::tok(pre.tok_n);
                assert!(tk.token_type == TokenType::CStyleComment && tk.channel == TokenChannel::COMMENT, "C06: comment type on the comment channel");
                assert!(tk.byte_offset.get() as usize == t.byte_at(pre.pi), "C02: comment token starts at the opener");
                if closed {
                    assert!(lx.errors.len() == pre.err_n, "C06/C09: terminated comment reports no error");
                } else {
                    assert!(lx.errors.len() == pre.err_n + 1 && lx.errors[pre.err_n].error_kind() == ErrorKind::UnterminatedComment, "C06: unterminated comment is reported");
                    assert!(lx.errors[pre.err_n].last_token().map(|x| x.get() as usize) == Some(pre.tok_n), "C06/C09: the unterminated error names the comment token");
                    assert!(lx.errors[pre.err_n].at_byte_offset() as usize == t.len, "C09: unterminated comment error at end of input");
                }
                assert!(lx.mode_stack.len() == pre.stack_len);
                kani::cover!(closed, "terminated comment");
                kani::cover!(!closed && pi == $k && t.nl_upto(pi) >= 1, "unterminated multi-line");
                kani::cover!($k < 5 || (closed && end == 4 && t.n > 4), "empty comment followed by text");
                kani::cover!($k < 5 || (closed && t.nl_upto(pi) >= 1), "terminated multi-line comment");
                std::mem::forget(lx);
            }
        }
    };
}
lx_cstyle_harness!(4, 20, 6, lx_cstyle_comment_k4);
lx_cstyle_harness!(5, 24, 7, lx_cstyle_comment_k5);

macro_rules! lx_macro_comment_harness {
    ($k:literal, $b:literal, $uw:literal, $name:ident) => {
        lx_harness! {
            #[kani::unwind($uw)]
            fn $name() {
                let t = Txt::<$k, $b>::any(PFX, &['%', '*']);
                let mut lx = setup(&t, &[LexerMode::Default]);
                let pre = snapshot(&lx, &t);
                lx.lex_macro_comment();
                let pi = check_common(&lx, &t, &pre);
                check_progress::<$k, $b, 2>(&lx, &t, &pre, pi);
                // reference: first ';' outside '...' / "..." after the opener, else end of input
                let mut end = t.n;
                let mut done = false;
                let mut q: u8 = 0; // 0 none, 1 single, 2 double
                let mut i = 2;
                while i < $k {
                    if !done && i < t.n {
                        let c = t.ch[i];
                        if c == ';' && q == 0 {
                            end = i + 1;
                            done = true;
                        } else if c == '\'' && q == 0 {
                            q = 1;
                        } else if c == '\'' && q == 1 {
                            q = 0;
                        } else if c == '"' && q == 0 {
                            q = 2;
                        } else if c == '"' && q == 2 {
                            q = 0;
                        }
                    }
                    i += 1;
                }
                assert!(pi == end, "C06: macro comment does not end at the first unquoted semicolon");
                assert!(shadow::tok_n() == pre.tok_n + 1, "C06: one comment token");
                let tk = shadow::tok(pre.tok_n);
                assert!(tk.token_type == TokenType::MacroComment && tk.channel == TokenChannel::COMMENT, "C06: macro comment type on the comment channel");
                assert!(tk.byte_offset.get() as usize == t.byte_at(pre.pi), "C02: comment token starts at the opener");
                assert!(lx.errors.len() == pre.err_n && lx.mode_stack.len() == pre.stack_len, "C01: macro comment touches neither errors nor modes");
                kani::cover!(done && q == 0 && t.nl_upto(pi) >= 1);
                kani::cover!(!done && q != 0, "semicolon masked by an open quote");
                std::mem::forget(lx);
            }
        }
    };
}
lx_macro_comment_harness!(4, 20, 6, lx_macro_comment_k4);
lx_macro_comment_harness!(5, 24, 7, lx_macro_comment_k5);

/// parse_sas_hex_string is out of CBMC's reach (DESIGN.md §8): arbitrary Ok/Err.
pub(crate) fn stub_hex_string(_t: &str) -> Result<String, ErrorKind> {
    if kani::any() {
        Ok(String::from("A"))
    } else {
        Err(ErrorKind::InvalidHexStringConstant)
    }
}

/// reference literal suffix at boundary c (just past the closing quote): (type, chars consumed)
pub(crate) fn ref_suffix<const K: usize, const B: usize>(t: &Txt<K, B>, c: usize) -> (TokenType, usize) {
    match ch_at(t, c) {
        Some('b' | 'B') => (TokenType::BitTestingLiteral, 1),
        Some('d' | 'D') => {
            if matches!(ch_at(t, c + 1), Some('t' | 'T')) {
                (TokenType::DateTimeLiteral, 2)
            } else {
                (TokenType::DateLiteral, 1)
            }
        }
        Some('n' | 'N') => (TokenType::NameLiteral, 1),
        Some('t' | 'T') => (TokenType::TimeLiteral, 1),
        Some('x' | 'X') => (TokenType::HexStringLiteral, 1),
        _ => (TokenType::StringLiteral, 0),
    }
}

macro_rules! lx_single_quoted_harness {
    ($k:literal, $b:literal, $uw:literal, $name:ident, $fixed:expr) => {
        lx_harness! {
            #[kani::unwind($uw)]
            fn $name() {
                let t = Txt::<$k, $b>::any(PFX, $fixed);
                let mut lx = setup(&t, &[LexerMode::Default]);
                // literal buffer not empty: payload ranges must continue it
                shadow::preload_literal_bytes(2);
                let pre = snapshot(&lx, &t);
                lx.lex_single_quoted_str();
                let pi = check_common(&lx, &t, &pre);
                check_progress::<$k, $b, 2>(&lx, &t, &pre, pi);
                // reference scan
                let mut kept = [true; $k];
                let mut close = $k + 1; // index of the closing quote
                let mut skip = false;
                let mut i = 1;
                while i < $k {
                    if close > $k && i < t.n {
                        if skip {
                            skip = false;
                            kept[i] = false; // second quote of a doubled pair
                        } else if t.ch[i] == '\'' {
                            if i + 1 < t.n && t.ch[i + 1] == '\'' {
                                skip = true;
                            } else {
                                close = i;
                            }
                        }
                    }
                    i += 1;
                }
                assert!(shadow::tok_n() == pre.tok_n + 1, "C06: one literal token");
                let tk = shadow::tok(pre.tok_n);
                assert!(tk.channel == TokenChannel::DEFAULT && tk.byte_offset.get() as usize == t.byte_at(pre.pi), "C06/C02: literal token on the default channel at the opening quote");
                if close <= $k {
                    let (tt, sl) = ref_suffix(&t, close + 1);
                    assert!(pi == close + 1 + sl, "C06/C11: literal ends after its closing quote and suffix");
                    assert!(tk.token_type == tt, "C06/C16: literal type follows the suffix (any letter case)");
                    if tt == TokenType::HexStringLiteral {
                        // decoding is stubbed: either a decoded payload or the error and the plain payload
                        if lx.errors.len() == pre.err_n {
                            assert!(matches!(tk.payload, Payload::StringLiteral(..)), "C07: decoded hex literal carries a payload");
                        } else {
                            assert!(lx.errors.len() == pre.err_n + 1 && lx.errors[pre.err_n].error_kind() == ErrorKind::InvalidHexStringConstant, "C07: invalid hex literal is reported");
                            assert!(lx.errors[pre.err_n].last_token().map(|x| x.get() as usize) == Some(pre.tok_n), "C09: hex error names the literal token");
                            check_payload::<$k, $b, { $k + 1 }>(&t, 1, close, &kept, tk.payload, pre.lit_n);
                        }
                    } else {
                        assert!(lx.errors.len() == pre.err_n, "C06: terminated literal reports no error");
                        check_payload::<$k, $b, { $k + 1 }>(&t, 1, close, &kept, tk.payload, pre.lit_n);
                    }
                } else {
                    assert!(pi == t.n, "C06: unterminated literal runs to the end of input");
                    assert!(tk.token_type == TokenType::StringLiteral, "C06: unterminated literal type");
                    assert!(lx.errors.len() == pre.err_n + 1 && lx.errors[pre.err_n].error_kind() == ErrorKind::UnterminatedStringLiteral, "C06: unterminated literal is reported");
                    assert!(lx.errors[pre.err_n].last_token().map(|x| x.get() as usize) == Some(pre.tok_n), "C06/C09: the unterminated error names the literal token");
                    check_payload::<$k, $b, { $k + 1 }>(&t, 1, t.n, &kept, tk.payload, pre.lit_n);
                }
                assert!(lx.mode_stack.len() == pre.stack_len);
                kani::cover!($k < 5 || (close <= $k && matches!(tk.payload, Payload::StringLiteral(..)) && tk.token_type == TokenType::NameLiteral), "suffixed literal with an escaped quote");
                kani::cover!(close > $k && matches!(tk.payload, Payload::StringLiteral(..)), "unterminated literal with an escaped quote");
                kani::cover!($k < 4 || $k == 5 || (close <= $k && tk.token_type == TokenType::DateTimeLiteral));
                kani::cover!(close <= $k && tk.token_type != TokenType::StringLiteral, "suffixed literal");
                kani::cover!($k < 4 || t.ch[1] == '\'' || (close <= $k && t.nl_upto(close) >= 1 && close + 1 < t.n), "multi-line literal followed by text");
                std::mem::forget(lx);
            }
        }
    };
}
lx_single_quoted_harness!(4, 20, 6, lx_single_quoted_k4, &['\'']);
lx_single_quoted_harness!(6, 28, 8, lx_single_quoted_k6, &['\'']);

// =============================================================================================
// Macro text scanners

impl<'src> Lexer<'src> {
    pub(crate) fn stub_dead0(&mut self) {
        kani::assume(false);
    }
    pub(crate) fn stub_dead1(&mut self, _b: bool) {
        kani::assume(false);
    }
    pub(crate) fn stub_dead_bool(&mut self) -> bool {
        kani::assume(false);
        false
    }
    /// consume one char the way the dispatchers do before calling a text scanner
    pub(crate) fn pre_advance(&mut self) {
        if let Some('\n') = self.cursor.advance() {
            self.add_line();
        }
    }
}

pub(crate) fn any_arg_flags() -> MacroArgNameValueFlags {
    let ctx = match kani::any::<u8>() % 3 {
        0 => MacroArgContext::BuiltInMacro,
        1 => MacroArgContext::MacroCall,
        _ => MacroArgContext::MacroDef,
    };
    MacroArgNameValueFlags::new(ctx, kani::any(), kani::any())
}

pub(crate) fn any_eval_flags() -> MacroEvalExprFlags {
    let nm = if kani::any() { MacroEvalNumericMode::Float } else { MacroEvalNumericMode::Integer };
    let na = match kani::any::<u8>() % 4 {
        0 => MacroEvalNextArgumentMode::None,
        1 => MacroEvalNextArgumentMode::SingleEvalExpr,
        2 => MacroEvalNextArgumentMode::EvalExpr,
        _ => MacroEvalNextArgumentMode::MacroArg,
    };
    MacroEvalExprFlags::new(nm, na, kani::any(), kani::any(), kani::any())
}

macro_rules! lx_text_scanner_harness {
    ($k:literal, $b:literal, $uw:literal, $name:ident, $mode:expr, $call:ident, $stat_opts:expr) => {
        lx_harness! {
            #[kani::unwind($uw)]
            fn $name() {
                let t = Txt::<$k, $b>::any(PFX, &[]);
                kani::assume(t.n >= 1);
                let mut lx = setup(&t, &[LexerMode::Default, LexerMode::ExpectSemiOrEOF, $mode]);
                let pre = snapshot(&lx, &t);
                // the dispatcher consumed the first char of the text (any char)
                lx.pre_advance();
                lx.$call();
                let pi = check_common(&lx, &t, &pre);
                check_progress::<$k, $b, 2>(&lx, &t, &pre, pi);
                // reference scan from the second char
                let stat_opts: bool = $stat_opts;
                let mut stop = t.n;
                let mut done = false;
                let mut semi = false;
                let mut skip = 0usize;
                let mut i = 1;
                while i < $k {
                    if !done && i < t.n {
                        if skip > 0 {
                            skip -= 1;
                        } else {
                            let c = t.ch[i];
                            let nx = ch_at(&t, i + 1);
                            if c == '\'' || c == '"' || (c == '/' && (stat_opts || nx == Some('*'))) || (stat_opts && (c == '=' || c.is_whitespace())) {
                                stop = i;
                                done = true;
                            } else if c == '&' {
                                let (m, cnt) = ref_macro_amp(&t, i);
                                if m {
                                    stop = i;
                                    done = true;
                                } else {
                                    skip = cnt - 1;
                                }
                            } else if c == '%' && ref_macro_percent(&t, i) {
                                stop = i;
                                done = true;
                            } else if c == ';' {
                                stop = i;
                                done = true;
                                semi = true;
                            }
                        }
                    }
                    i += 1;
                }
                assert!(pi == stop, "C06/C13: macro text does not end at the first delimiter of its mode");
                assert!(shadow::tok_n() == pre.tok_n + 1, "C06: one text token");
                let tk = shadow::tok(pre.tok_n);
                assert!(tk.token_type == TokenType::MacroString && tk.channel == TokenChannel::DEFAULT && matches!(tk.payload, Payload::None), "C06: macro text token");
                assert!(tk.byte_offset.get() as usize == t.byte_at(pre.pi), "C02: text token starts where the dispatcher started it");
                assert!(lx.errors.len() == pre.err_n, "C01: text scanner reports no error");
                if semi {
                    assert!(lx.mode_stack.len() == pre.stack_len - 1 && matches!(lx.mode_stack.last(), Some(LexerMode::ExpectSemiOrEOF)), "C14: the terminating semicolon hands over to the expectation below");
                } else {
                    assert!(lx.mode_stack.len() == pre.stack_len, "C01: text scanner leaves the mode on non-terminators");
                }
                kani::cover!($k < 3 || (semi && t.nl_upto(pi) >= 1), "multi-line text up to the semicolon");
                kani::cover!(semi, "text up to the semicolon");
                kani::cover!(!done && pi == $k, "text to end of input");
                kani::cover!($k < 3 || (done && !semi && t.ch[stop] == '%'));
                kani::cover!($k < 4 || (done && !semi && t.ch[stop] == '&' && stop >= 2));
                std::mem::forget(lx);
            }
        }
    };
}
lx_text_scanner_harness!(3, 16, 5, lx_unrestricted_k3, LexerMode::MacroSemiTerminatedTextExpr, lex_macro_string_unrestricted, false);
lx_text_scanner_harness!(4, 20, 6, lx_unrestricted_k4, LexerMode::MacroSemiTerminatedTextExpr, lex_macro_string_unrestricted, false);
lx_text_scanner_harness!(3, 16, 5, lx_stat_opts_string_k3, LexerMode::MacroStatOptionsTextExpr, lex_macro_string_stat_opts, true);
lx_text_scanner_harness!(4, 20, 6, lx_stat_opts_string_k4, LexerMode::MacroStatOptionsTextExpr, lex_macro_string_stat_opts, true);

macro_rules! lx_arg_value_scan_harness {
    ($k:literal, $b:literal, $uw:literal, $name:ident) => {
        lx_harness! {
            #[kani::unwind($uw)]
            fn $name() {
                let t = Txt::<$k, $b>::any(PFX, &[]);
                kani::assume(t.n >= 1);
                let flags = any_arg_flags();
                let pnl: u32 = kani::any();
                kani::assume(pnl < u32::MAX - 8);
                let c0 = t.ch[0];
                // the dispatcher reaches the scanner without consuming only on these first chars
                kani::assume(!matches!(c0, '\'' | '"' | '&' | '%' | '/' | '\n'));
                kani::assume(!(c0 == ',' && pnl == 0 && flags.terminate_on_comma()) && !(c0 == ')' && pnl == 0));
                let mut lx = setup(&t, &[LexerMode::Default, LexerMode::ExpectSymbol(TokenType::RPAREN, TokenChannel::DEFAULT), LexerMode::MacroCallValue { flags, pnl }]);
                let pre = snapshot(&lx, &t);
                lx.lex_macro_string_in_macro_call_arg_value(flags, pnl);
                let pi = check_common(&lx, &t, &pre);
                check_progress::<$k, $b, 3>(&lx, &t, &pre, pi);
                // reference scan with the combined depth
                let mut depth: i64 = pnl as i64;
                let mut stop = t.n;
                let mut done = false;
                let mut end_rparen = false;
                let mut end_comma = false;
                let mut skip = 0usize;
                let mut i = 0;
                while i < $k {
                    if !done && i < t.n {
                        if skip > 0 {
                            skip -= 1;
                        } else {
                            let c = t.ch[i];
                            let nx = ch_at(&t, i + 1);
                            if c == '\'' || c == '"' || (c == '/' && nx == Some('*')) {
                                stop = i;
                                done = true;
                            } else if c == '&' {
                                let (m, cnt) = ref_macro_amp(&t, i);
                                if m {
                                    stop = i;
                                    done = true;
                                } else {
                                    skip = cnt - 1;
                                }
                            } else if c == '%' && ref_macro_percent(&t, i) {
                                stop = i;
                                done = true;
                            } else if c == '(' {
                                depth += 1;
                            } else if c == ')' && depth != 0 {
                                depth -= 1;
                            } else if c == ')' {
                                stop = i;
                                done = true;
                                end_rparen = true;
                            } else if c == ',' && depth == 0 && flags.terminate_on_comma() {
                                stop = i;
                                done = true;
                                end_comma = true;
                            }
                        }
                    }
                    i += 1;
                }
                let tk = shadow::tok(pre.tok_n);
                assert!(tk.token_type == TokenType::MacroString && tk.channel == TokenChannel::DEFAULT, "C06: argument text token");
                assert!(tk.byte_offset.get() as usize == t.byte_at(pre.pi), "C02: argument text starts at the scanner's start");
                assert!(lx.errors.len() == pre.err_n, "C01: argument scanner reports no error");
                if end_comma && flags.populate_next_arg_stack() {
                    // the comma is lexed right away as a delimiter token and the next argument is prepared
                    assert!(pi == stop + 1 && shadow::tok_n() == pre.tok_n + 2, "C13: top-level comma is a delimiter token of its own");
                    let cm = shadow::tok(pre.tok_n + 1);
                    assert!(cm.token_type == TokenType::COMMA && cm.channel == TokenChannel::DEFAULT && cm.byte_offset.get() as usize == t.byte_at(stop), "C13: COMMA token at the comma");
                    assert!(lx.mode_stack.len() == pre.stack_len + 1 && matches!(lx.mode_stack.last(), Some(LexerMode::WsOrCStyleCommentOnly)), "C13: next argument modes are pushed");
                    let nm = &lx.mode_stack[pre.stack_len - 1];
                    let ok = match flags.context() {
                        MacroArgContext::MacroCall => matches!(nm, LexerMode::MacroCallArgOrValue { flags: f } if *f == flags),
                        MacroArgContext::BuiltInMacro => matches!(nm, LexerMode::MacroCallValue { flags: f, pnl: 0 } if *f == flags),
                        MacroArgContext::MacroDef => matches!(nm, LexerMode::MacroDefArg),
                    };
                    assert!(ok, "C13: mode of the next argument follows the call context");
                } else {
                    assert!(pi == stop && shadow::tok_n() == pre.tok_n + 1, "C13: argument text ends exactly at the first top-level delimiter / sub-token start");
                    if end_comma || end_rparen {
                        assert!(lx.mode_stack.len() == pre.stack_len - 1, "C13: a top-level delimiter ends the argument (mode popped)");
                    } else {
                        assert!(lx.mode_stack.len() == pre.stack_len, "C13: nested delimiters and text keep the argument open");
                        assert!(matches!(lx.mode_stack.last(), Some(LexerMode::MacroCallValue { flags: f, pnl: p }) if *f == flags && *p as i64 == depth), "C13: parenthesis depth carried in the mode = depth before + '(' - ')' in the text");
                    }
                }
                kani::cover!(!done && depth == pnl as i64 + 1 && pnl > 1000, "depth increases at a large depth");
                kani::cover!(!done && depth + 1 == pnl as i64, "depth decreases");
                kani::cover!($k < 3 || (end_comma && pnl == 0 && stop >= 2), "comma after a balanced group");
                kani::cover!(end_rparen && stop >= 1);
                kani::cover!(end_comma && stop >= 1);
                kani::cover!($k < 3 || (done && !end_comma && !end_rparen && pnl > 0 && t.ch[stop] == '&'));
                std::mem::forget(lx);
            }
        }
    };
}
lx_arg_value_scan_harness!(3, 16, 5, lx_arg_value_scan_k3);
lx_arg_value_scan_harness!(4, 20, 6, lx_arg_value_scan_k4);

macro_rules! lx_str_call_scan_harness {
    ($k:literal, $b:literal, $uw:literal, $name:ident, $fixed:expr) => {
        lx_harness! {
            #[kani::unwind($uw)]
            fn $name() {
                let t = Txt::<$k, $b>::any(PFX, $fixed);
                kani::assume(t.n >= 1);
                let mask: bool = kani::any();
                let pnl: u32 = kani::any();
                kani::assume(pnl < u32::MAX - 8);
                let c0 = t.ch[0];
                let quoted_next = matches!(ch_at(&t, 1), Some('"' | '\'' | '%' | '(' | ')'));
                // first chars on which the dispatcher calls the scanner without consuming
                kani::assume(!matches!(c0, '\'' | '"' | '/' | '\n') && !(c0 == ')' && pnl == 0));
                kani::assume(mask || (c0 != '&' && (c0 != '%' || quoted_next)));
                let mut lx = setup(&t, &[LexerMode::Default, LexerMode::ExpectSymbol(TokenType::RPAREN, TokenChannel::HIDDEN), LexerMode::MacroStrQuotedExpr { mask_macro: mask, pnl }]);
                shadow::preload_literal_bytes(1);
                let pre = snapshot(&lx, &t);
                lx.lex_macro_string_in_str_call(mask, pnl);
                let pi = check_common(&lx, &t, &pre);
                check_progress::<$k, $b, 2>(&lx, &t, &pre, pi);
                // reference scan: %-quoted chars are text and never delimiters
                let mut kept = [true; $k];
                let mut depth: i64 = pnl as i64;
                let mut stop = t.n;
                let mut done = false;
                let mut end_rparen = false;
                let mut skip = 0usize;
                let mut i = 0;
                while i < $k {
                    if !done && i < t.n {
                        if skip > 0 {
                            skip -= 1;
                        } else {
                            let c = t.ch[i];
                            let nx = ch_at(&t, i + 1);
                            if c == '\'' || c == '"' || (c == '/' && nx == Some('*')) {
                                stop = i;
                                done = true;
                            } else if c == '&' && !mask {
                                let (m, cnt) = ref_macro_amp(&t, i);
                                if m {
                                    stop = i;
                                    done = true;
                                } else {
                                    skip = cnt - 1;
                                }
                            } else if c == '%' && matches!(nx, Some('"' | '\'' | '%' | '(' | ')')) {
                                kept[i] = false;
                                skip = 1;
                            } else if c == '%' && !mask && ref_macro_percent(&t, i) {
                                stop = i;
                                done = true;
                            } else if c == '(' {
                                depth += 1;
                            } else if c == ')' && depth != 0 {
                                depth -= 1;
                            } else if c == ')' {
                                stop = i;
                                done = true;
                                end_rparen = true;
                            }
                        }
                    }
                    i += 1;
                }
                assert!(pi == stop && shadow::tok_n() == pre.tok_n + 1, "C13: %str text ends at the first unquoted top-level ')' / sub-token start");
                let tk = shadow::tok(pre.tok_n);
                assert!(tk.token_type == TokenType::MacroString && tk.channel == TokenChannel::DEFAULT, "C06: %str text token");
                assert!(tk.byte_offset.get() as usize == t.byte_at(pre.pi), "C02: %str text starts at the scanner's start");
                check_payload::<$k, $b, { $k + 1 }>(&t, pre.pi, stop, &kept, tk.payload, pre.lit_n);
                assert!(lx.errors.len() == pre.err_n, "C01: %str scanner reports no error");
                if end_rparen {
                    assert!(lx.mode_stack.len() == pre.stack_len - 1, "C13: the closing ')' at depth 0 ends the %str text");
                } else {
                    assert!(matches!(lx.mode_stack.last(), Some(LexerMode::MacroStrQuotedExpr { mask_macro: m, pnl: p }) if *m == mask && *p as i64 == depth) && lx.mode_stack.len() == pre.stack_len, "C13: %-quoted parentheses do not change the depth, others do");
                }
                kani::cover!(matches!(tk.payload, Payload::StringLiteral(..)) && !kept[0], "escape at the very start");
                kani::cover!($k < 4 || (matches!(tk.payload, Payload::StringLiteral(..)) && kept[0] && end_rparen), "escape in the middle, closed");
                kani::cover!(end_rparen && stop >= 1 && pnl == 0);
                kani::cover!(!done && depth == pnl as i64 + 1);
                std::mem::forget(lx);
            }
        }
    };
}
lx_str_call_scan_harness!(3, 16, 5, lx_str_call_scan_k3, &[]);
lx_str_call_scan_harness!(4, 20, 6, lx_str_call_scan_k4, &[]);
lx_text_scanner_harness!(2, 12, 4, lx_unrestricted_k2, LexerMode::MacroSemiTerminatedTextExpr, lex_macro_string_unrestricted, false);
lx_text_scanner_harness!(2, 12, 4, lx_stat_opts_string_k2, LexerMode::MacroStatOptionsTextExpr, lex_macro_string_stat_opts, true);
lx_arg_value_scan_harness!(2, 12, 4, lx_arg_value_scan_k2);
lx_str_call_scan_harness!(2, 12, 4, lx_str_call_scan_k2, &[]);
lx_str_call_scan_harness!(3, 16, 5, lx_str_call_scan_esc_k3, &['%', '(']);
lx_single_quoted_harness!(3, 16, 5, lx_single_quoted_k3, &['\'']);
lx_single_quoted_harness!(5, 24, 7, lx_single_quoted_esc_k5, &['\'', '\'', '\'']);

// =============================================================================================
// End of input: finalize_lexing unwinds every pending mode (C10, C14, C09, C02)

pub(crate) fn missing_kind(tt: TokenType) -> ErrorKind {
    match tt {
        TokenType::RPAREN => ErrorKind::MissingExpectedRParen,
        TokenType::ASSIGN => ErrorKind::MissingExpectedAssign,
        TokenType::LPAREN => ErrorKind::MissingExpectedLParen,
        TokenType::COMMA => ErrorKind::MissingExpectedComma,
        _ => ErrorKind::MissingExpectedFSlash,
    }
}

/// Runs finalize_lexing at end of input on the given stack (tags constant, parameters symbolic) and
/// compares tokens and errors with the reference unwinding: every pending expectation, open
/// parenthesis level and open string expression is closed by a virtual token and reported.
pub(crate) fn run_finalize(modes: &[LexerMode], last_is_str_start: bool) {
    let t = Txt::<1, 8>::any(PFX, &[]);
    kani::assume(t.n == 0);
    let mut lx = setup(&t, modes);
    // one earlier token: the look-behind of handle_unterminated_str_expr
    let eof_b = t.len as u32;
    shadow::preload_token(shadow::mk_token(TokenChannel::DEFAULT, if last_is_str_start { TokenType::StringExprStart } else { TokenType::MacroString }, eof_b - 1, t.pre_c - 1, 1, Payload::None));
    // optionally a hidden token after it (e.g. the hidden ')' of %str): the start is then not the last token
    let hidden_after: bool = kani::any();
    if hidden_after {
        shadow::preload_token(shadow::mk_token(TokenChannel::HIDDEN, TokenType::RPAREN, eof_b, t.pre_c, 1, Payload::None));
    }
    let last_is_str_start = last_is_str_start && !hidden_after;
    let first_at = shadow::tok_n() - 1 - hidden_after as usize;
    let first_tt = shadow::tok(first_at).token_type;
    let pre = snapshot(&lx, &t);
    // as in a real run, the token start mark is still that of the last token lexed, not the end of input
    lx.cur_token_byte_offset = ByteOffset::new(eof_b - 1);
    lx.cur_token_start = CharOffset::new(t.pre_c - 1);
    lx.finalize_lexing();
    assert!(lx.cur_byte_offset().get() == eof_b && lx.mode_stack.is_empty(), "C10: finalize_lexing unwinds the whole mode stack");
    assert!(shadow::line_n() as u32 == 1 + t.pre_nl, "C04: finalize_lexing adds no line");
    // reference unwinding, top of stack first
    let mut exp_tok: [(TokenType, TokenChannel); 8] = [(TokenType::EOF, TokenChannel::DEFAULT); 8];
    assert!(modes.len() <= 5, "harness: finalize stacks are at most 5 modes deep");
    let mut nt = 0usize;
    let mut exp_err: [ErrorKind; 8] = [ErrorKind::FileTooLarge; 8];
    let mut ne = 0usize;
    let mut retyped = false;
    let mut start_pending = last_is_str_start;
    let mut m = modes.len();
    while m > 0 {
        m -= 1;
        match &modes[m] {
            LexerMode::ExpectSymbol(tt, ch) => {
                exp_err[ne] = missing_kind(*tt);
                ne += 1;
                exp_tok[nt] = (*tt, *ch);
                nt += 1;
                start_pending = false;
            }
            LexerMode::ExpectSemiOrEOF | LexerMode::MacroDo => {
                exp_tok[nt] = (TokenType::SEMI, TokenChannel::DEFAULT);
                nt += 1;
                start_pending = false;
            }
            LexerMode::MacroStrQuotedExpr { pnl, .. } | LexerMode::MacroCallValue { pnl, .. } | LexerMode::MacroEval { pnl, .. } => {
                if *pnl > 0 {
                    exp_err[ne] = ErrorKind::MissingExpectedRParen;
                    ne += 1;
                    let mut q = 0;
                    while q < 2 {
                        if q < *pnl {
                            exp_tok[nt] = (TokenType::RPAREN, TokenChannel::DEFAULT);
                            nt += 1;
                        }
                        q += 1;
                    }
                    start_pending = false;
                }
            }
            LexerMode::StringExpr { .. } => {
                exp_err[ne] = ErrorKind::UnterminatedStringLiteral;
                ne += 1;
                if start_pending {
                    retyped = true;
                    start_pending = false;
                } else {
                    exp_tok[nt] = (TokenType::StringExprEnd, TokenChannel::DEFAULT);
                    nt += 1;
                }
            }
            LexerMode::MacroNameExpr(_, Some(e)) => {
                exp_err[ne] = *e;
                ne += 1;
            }
            LexerMode::MacroDefName => {
                exp_err[ne] = ErrorKind::InvalidMacroDefName;
                ne += 1;
            }
            _ => {}
        }
    }
    exp_tok[nt] = (TokenType::EOF, TokenChannel::DEFAULT);
    nt += 1;
    assert!(shadow::tok_n() == pre.tok_n + nt, "C10/C14: number of closing tokens supplied at end of input");
    assert!(nt <= 6 && ne <= 6);
    let mut j = 0;
    while j < 6 {
        if j < nt {
            let tk = shadow::tok(pre.tok_n + j);
            assert!(tk.token_type == exp_tok[j].0 && tk.channel == exp_tok[j].1, "C10/C14: closing token supplied at end of input (type/channel/order)");
            assert!(tk.byte_offset.get() == eof_b && tk.start.get() == t.pre_c, "C02/C09: virtual tokens and EOF sit at the end of the text");
        }
        j += 1;
    }
    assert!(lx.errors.len() == pre.err_n + ne, "C09/C14: one error per missing closer at end of input");
    let mut j = 0;
    while j < 6 {
        if j < ne {
            assert!(lx.errors[pre.err_n + j].error_kind() == exp_err[j], "C09/C14: kind of the error reported for a missing closer");
            assert!(lx.errors[pre.err_n + j].at_byte_offset() == eof_b, "C09/C14: missing closer reported where it was expected");
        }
        j += 1;
    }
    let first = shadow::tok(first_at);
    if retyped {
        assert!(first.token_type == TokenType::StringLiteral, "C10: an unterminated literal's start token becomes the literal");
    } else {
        assert!(first.token_type == first_tt, "C10/C01: earlier tokens are not rewritten");
    }
    if hidden_after {
        let h = shadow::tok(first_at + 1);
        assert!(h.token_type == TokenType::RPAREN && h.channel == TokenChannel::HIDDEN, "C10: a hidden token after the string start is not rewritten");
    }
    std::mem::forget(lx);
}

macro_rules! lx_finalize_harness {
    ($name:ident, $pnl:literal, $modes:expr) => {
        lx_harness! {
            #[kani::unwind(7)]
            fn $name() {
                // nesting depths are constants of the instance (the recovery loop runs pnl times)
                let pnl: u32 = $pnl;
                let pnl2: u32 = 1;
                let ef = any_eval_flags();
                let af = any_arg_flags();
                let b1: bool = kani::any();
                let _ = (pnl, pnl2, ef, af, b1);
                let mk = $modes;
                let modes_arr = mk(pnl, pnl2, ef, af, b1);
                let modes: &[LexerMode] = &modes_arr;
                let lb: bool = kani::any();
                run_finalize(modes, lb);
                kani::cover!(lb);
                kani::cover!(!lb);
            }
        }
    };
}

// "%eval(1  : string expression below a pending ')' below an eval expression
lx_finalize_harness!(lx_finalize_str_expect_eval_p0, 0, |pnl, _p2, ef, _af, b1| [LexerMode::Default, LexerMode::StringExpr { allow_stat: b1 }, LexerMode::ExpectSymbol(TokenType::RPAREN, TokenChannel::DEFAULT), LexerMode::MacroEval { macro_eval_flags: ef, pnl }]);
lx_finalize_harness!(lx_finalize_str_expect_eval_p2, 2, |pnl, _p2, ef, _af, b1| [LexerMode::Default, LexerMode::StringExpr { allow_stat: b1 }, LexerMode::ExpectSymbol(TokenType::RPAREN, TokenChannel::DEFAULT), LexerMode::MacroEval { macro_eval_flags: ef, pnl }]);
// %do %while( ... at end of input
lx_finalize_harness!(lx_finalize_while_p1, 1, |pnl, _p2, ef, _af, _b1| [LexerMode::ExpectSemiOrEOF, LexerMode::WsOrCStyleCommentOnly, LexerMode::ExpectSymbol(TokenType::RPAREN, TokenChannel::DEFAULT), LexerMode::MacroEval { macro_eval_flags: ef, pnl }]);
// %str( / %nrstr( with nested parens, inside a user macro call argument
lx_finalize_harness!(lx_finalize_str_call_p2, 2, |pnl, p2, _ef, af, b1| [LexerMode::ExpectSymbol(TokenType::RPAREN, TokenChannel::DEFAULT), LexerMode::MacroCallValue { flags: af, pnl: p2 }, LexerMode::ExpectSymbol(TokenType::RPAREN, TokenChannel::HIDDEN), LexerMode::MacroStrQuotedExpr { mask_macro: b1, pnl }]);
// %let a  (name, '=', value, ';' all pending) ; trailing %do
lx_finalize_harness!(lx_finalize_let_p0, 0, |_pnl, _p2, _ef, _af, b1| [LexerMode::ExpectSemiOrEOF, LexerMode::MacroSemiTerminatedTextExpr, LexerMode::ExpectSymbol(TokenType::ASSIGN, TokenChannel::DEFAULT), LexerMode::WsOrCStyleCommentOnly, LexerMode::MacroNameExpr(b1, Some(ErrorKind::InvalidMacroLetVarName))]);
lx_finalize_harness!(lx_finalize_do_p0, 0, |_pnl, _p2, _ef, _af, b1| [LexerMode::Default, LexerMode::StringExpr { allow_stat: b1 }, LexerMode::MacroDo, LexerMode::WsOrCStyleCommentOnly]);
// %if (a   : open parenthesis with nothing expected below
lx_finalize_harness!(lx_finalize_if_paren_p1, 1, |pnl, _p2, ef, _af, b1| [LexerMode::Default, LexerMode::StringExpr { allow_stat: b1 }, LexerMode::MacroEval { macro_eval_flags: ef, pnl }]);
lx_finalize_harness!(lx_finalize_if_paren_p2, 2, |pnl, _p2, ef, _af, b1| [LexerMode::Default, LexerMode::StringExpr { allow_stat: b1 }, LexerMode::MacroEval { macro_eval_flags: ef, pnl }]);
// %scan(a  : ',' and ')' pending above an argument with open parentheses
lx_finalize_harness!(lx_finalize_scan_p1, 1, |pnl, _p2, ef, af, _b1| [LexerMode::ExpectSymbol(TokenType::RPAREN, TokenChannel::DEFAULT), LexerMode::MacroEval { macro_eval_flags: ef, pnl: 0 }, LexerMode::ExpectSymbol(TokenType::COMMA, TokenChannel::DEFAULT), LexerMode::MacroCallValue { flags: af, pnl }]);
// %copy x , %macro at end of input, nested string expressions
lx_finalize_harness!(lx_finalize_copy_p0, 0, |_pnl, _p2, _ef, _af, _b1| [LexerMode::ExpectSemiOrEOF, LexerMode::MacroStatOptionsTextExpr, LexerMode::ExpectSymbol(TokenType::FSLASH, TokenChannel::DEFAULT), LexerMode::MaybeMacroDefArgs, LexerMode::MacroDefName]);
lx_finalize_harness!(lx_finalize_nested_str_p0, 0, |_pnl, _p2, _ef, _af, b1| [LexerMode::Default, LexerMode::StringExpr { allow_stat: b1 }, LexerMode::ExpectSymbol(TokenType::LPAREN, TokenChannel::DEFAULT), LexerMode::StringExpr { allow_stat: !b1 }]);

lx_harness! {
    #[kani::unwind(7)]
    fn twin_lx_finalize() {
        let modes = [LexerMode::Default, LexerMode::StringExpr { allow_stat: kani::any() }, LexerMode::ExpectSymbol(TokenType::RPAREN, TokenChannel::DEFAULT)];
        let t = Txt::<1, 8>::any(PFX, &[]);
        kani::assume(t.n == 0);
        let mut lx = setup(&t, &modes);
        lx.finalize_lexing();
        assert!(false, "TWIN: reachable");
    }
}

// =============================================================================================
// The inline arms of lex_token (ExpectSymbol, ExpectSemiOrEOF, WsOrCStyleCommentOnly,
// MakeCheckpoint, MacroDefName): the real lex_token with its 17 dispatch targets cut off.

impl<'src> Lexer<'src> {
    pub(crate) fn dead_c(&mut self, _c: char) {
        kani::assume(false);
    }
    pub(crate) fn dead_cb(&mut self, _c: char, _b: bool) {
        kani::assume(false);
    }
    pub(crate) fn dead_cfu(&mut self, _c: char, _f: MacroEvalExprFlags, _u: u32) {
        kani::assume(false);
    }
    pub(crate) fn dead_cbu(&mut self, _c: char, _b: bool, _u: u32) {
        kani::assume(false);
    }
    pub(crate) fn dead_ca(&mut self, _c: char, _f: MacroArgNameValueFlags) {
        kani::assume(false);
    }
    pub(crate) fn dead_cau(&mut self, _c: char, _f: MacroArgNameValueFlags, _u: u32) {
        kani::assume(false);
    }
    pub(crate) fn dead_cbo(&mut self, _c: char, _b: bool, _e: Option<ErrorKind>) {
        kani::assume(false);
    }
}

macro_rules! lx_token_harness {
    ($(#[$m:meta])* fn $name:ident() $body:block) => {
        lx_harness! {
            #[kani::stub(Lexer::dispatch_mode_default, Lexer::dead_c)]
            #[kani::stub(Lexer::dispatch_mode_str_expr, Lexer::dead_cb)]
            #[kani::stub(Lexer::dispatch_mode_macro_eval, Lexer::dead_cfu)]
            #[kani::stub(Lexer::dispatch_macro_str_quoted_expr, Lexer::dead_cbu)]
            #[kani::stub(Lexer::lex_maybe_macro_call_args_or_label, Lexer::dead_cb)]
            #[kani::stub(Lexer::lex_maybe_macro_call_arg_assign, Lexer::dead_ca)]
            #[kani::stub(Lexer::lex_maybe_tail_macro_call_arg_value, Lexer::dead_c)]
            #[kani::stub(Lexer::dispatch_macro_call_arg_or_value, Lexer::dead_ca)]
            #[kani::stub(Lexer::dispatch_macro_call_arg_value, Lexer::dead_cau)]
            #[kani::stub(Lexer::lex_maybe_macro_def_args, Lexer::dead_c)]
            #[kani::stub(Lexer::dispatch_macro_def_arg, Lexer::dead_c)]
            #[kani::stub(Lexer::lex_macro_def_next_arg_or_default_value, Lexer::dead_c)]
            #[kani::stub(Lexer::dispatch_macro_do, Lexer::dead_c)]
            #[kani::stub(Lexer::dispatch_macro_local_global, Lexer::dead_cb)]
            #[kani::stub(Lexer::dispatch_macro_name_expr, Lexer::dead_cbo)]
            #[kani::stub(Lexer::dispatch_macro_semi_term_text_expr, Lexer::dead_c)]
            #[kani::stub(Lexer::dispatch_macro_stat_opts_text_expr, Lexer::dead_c)]
            $(#[$m])*
            fn $name() $body
        }
    };
}

pub(crate) fn expected_char(tt: TokenType) -> char {
    match tt {
        TokenType::RPAREN => ')',
        TokenType::ASSIGN => '=',
        TokenType::LPAREN => '(',
        TokenType::COMMA => ',',
        _ => '/',
    }
}

pub(crate) fn any_expectable() -> TokenType {
    match kani::any::<u8>() % 5 {
        0 => TokenType::RPAREN,
        1 => TokenType::ASSIGN,
        2 => TokenType::LPAREN,
        3 => TokenType::COMMA,
        _ => TokenType::FSLASH,
    }
}

lx_token_harness! {
    #[kani::unwind(5)]
    fn lx_token_expect_symbol() {
        let t = Txt::<2, 12>::any(PFX, &[]);
        kani::assume(t.n >= 1);
        let tt = any_expectable();
        let ch = if kani::any() { TokenChannel::DEFAULT } else { TokenChannel::HIDDEN };
        let mut lx = setup(&t, &[LexerMode::Default, LexerMode::MacroEval { macro_eval_flags: any_eval_flags(), pnl: kani::any() }, LexerMode::ExpectSymbol(tt, ch)]);
        shadow::preload_token(shadow::mk_token(TokenChannel::DEFAULT, TokenType::MacroString, 1, 1, 0, Payload::None));
        let pre = snapshot(&lx, &t);
        lx.lex_token(t.ch[0]);
        let pi = check_common(&lx, &t, &pre);
        check_progress::<2, 12, 2>(&lx, &t, &pre, pi);
        assert!(lx.mode_stack.len() == pre.stack_len - 1, "C14: an expectation is consumed by exactly one step");
        assert!(shadow::tok_n() == pre.tok_n + 1, "C14: the expected symbol always yields one token");
        let tk = shadow::tok(pre.tok_n);
        assert!(tk.token_type == tt && tk.channel == ch, "C14/C06: token of the expected type on the expected channel");
        assert!(tk.byte_offset.get() as usize == t.byte_at(pre.pi), "C14: recovery token where the symbol was expected");
        if t.ch[0] == expected_char(tt) {
            assert!(pi == pre.pi + 1 && lx.errors.len() == pre.err_n, "C14/C09: the symbol is consumed without error");
        } else {
            assert!(pi == pre.pi, "C09/C14: a missing symbol consumes nothing (zero-width recovery token)");
            assert!(lx.errors.len() == pre.err_n + 1 && lx.errors[pre.err_n].error_kind() == missing_kind(tt), "C09/C14: the missing symbol is reported with its own error kind");
            assert!(lx.errors[pre.err_n].at_byte_offset() as usize == t.byte_at(pre.pi), "C09/C14: error at the offset of the recovery token");
            assert!(lx.errors[pre.err_n].last_token().map(|x| x.get() as usize) == Some(pre.tok_n - 1), "C09: the error names the token before the recovery token");
        }
        kani::cover!(t.ch[0] == ')' && tt == TokenType::RPAREN && ch == TokenChannel::HIDDEN);
        kani::cover!(t.ch[0] != ',' && tt == TokenType::COMMA);
        std::mem::forget(lx);
    }
}

lx_token_harness! {
    #[kani::unwind(5)]
    fn lx_token_expect_semi() {
        let t = Txt::<2, 12>::any(PFX, &[]);
        kani::assume(t.n >= 1);
        let mut lx = setup(&t, &[LexerMode::Default, LexerMode::ExpectSemiOrEOF]);
        shadow::preload_token(shadow::mk_token(TokenChannel::DEFAULT, TokenType::KwmEnd, 1, 1, 0, Payload::None));
        let pre = snapshot(&lx, &t);
        lx.lex_token(t.ch[0]);
        let pi = check_common(&lx, &t, &pre);
        check_progress::<2, 12, 2>(&lx, &t, &pre, pi);
        assert!(lx.mode_stack.len() == pre.stack_len - 1 && shadow::tok_n() == pre.tok_n + 1, "C14: the semicolon expectation yields one token and is consumed");
        let tk = shadow::tok(pre.tok_n);
        assert!(tk.token_type == TokenType::SEMI && tk.channel == TokenChannel::DEFAULT && tk.byte_offset.get() as usize == t.byte_at(pre.pi), "C14/C06: SEMI token where it was expected");
        if t.ch[0] == ';' {
            assert!(pi == pre.pi + 1 && lx.errors.len() == pre.err_n, "C14: the semicolon is consumed without error");
        } else {
            assert!(pi == pre.pi && lx.errors.len() == pre.err_n + 1 && lx.errors[pre.err_n].error_kind() == ErrorKind::MissingExpectedSemiOrEOF, "C09/C14: a missing semicolon is reported and recovered with a zero-width token");
            assert!(lx.errors[pre.err_n].at_byte_offset() as usize == t.byte_at(pre.pi), "C09/C14: error at the offset of the recovery token");
        }
        kani::cover!(t.ch[0] == ';');
        kani::cover!(t.ch[0] != ';');
        std::mem::forget(lx);
    }
}

lx_token_harness! {
    #[kani::unwind(6)]
    fn lx_token_ws_only() {
        let t = Txt::<3, 16>::any(PFX, &[]);
        kani::assume(t.n >= 1);
        let mut lx = setup(&t, &[LexerMode::Default, LexerMode::ExpectSymbol(TokenType::LPAREN, TokenChannel::DEFAULT), LexerMode::WsOrCStyleCommentOnly]);
        let pre = snapshot(&lx, &t);
        lx.lex_token(t.ch[0]);
        let pi = check_common(&lx, &t, &pre);
        check_progress::<3, 16, 2>(&lx, &t, &pre, pi);
        let is_comment = t.ch[0] == '/' && ch_at(&t, 1) == Some('*');
        if is_comment || t.ch[0].is_whitespace() {
            assert!(pi > pre.pi && shadow::tok_n() == pre.tok_n + 1 && lx.mode_stack.len() == pre.stack_len, "C13/C14: insignificant whitespace/comments are consumed in place");
            let tk = shadow::tok(pre.tok_n);
            if is_comment {
                assert!(tk.token_type == TokenType::CStyleComment && tk.channel == TokenChannel::COMMENT, "C13/C06: comment around a delimiter goes to the comment channel");
            } else {
                assert!(tk.token_type == TokenType::WS && tk.channel == TokenChannel::HIDDEN, "C13/C06: whitespace around a delimiter goes to the hidden channel");
            }
        } else {
            assert!(pi == pre.pi && shadow::tok_n() == pre.tok_n && lx.mode_stack.len() == pre.stack_len - 1 && lx.errors.len() == pre.err_n, "C14: the first significant character ends the whitespace mode untouched");
        }
        kani::cover!(is_comment && pi == 3);
        kani::cover!(t.ch[0].is_whitespace() && pi == 1 && t.n > 1);
        std::mem::forget(lx);
    }
}

lx_token_harness! {
    #[kani::unwind(5)]
    fn lx_token_make_checkpoint() {
        let t = Txt::<2, 12>::any(PFX, &[]);
        kani::assume(t.n >= 1);
        let flags = any_arg_flags();
        let mut lx = setup(&t, &[LexerMode::Default, LexerMode::MaybeMacroCallArgAssign { flags }, LexerMode::WsOrCStyleCommentOnly, LexerMode::MakeCheckpoint]);
        shadow::preload_token(shadow::mk_token(TokenChannel::DEFAULT, TokenType::RPAREN, 1, 1, 0, Payload::None));
        let pre = snapshot(&lx, &t);
        lx.lex_token(t.ch[0]);
        let pi = check_common(&lx, &t, &pre);
        check_progress::<2, 12, 2>(&lx, &t, &pre, pi);
        assert!(pi == pre.pi && shadow::tok_n() == pre.tok_n && lx.mode_stack.len() == pre.stack_len - 1, "C01: the checkpoint marker only pops itself");
        let cp = lx.checkpoint.as_ref();
        assert!(cp.is_some(), "C01/C09: the marker takes a checkpoint");
        let cp = cp.unwrap();
        assert!(cp.cursor.remaining_len() == lx.cursor.remaining_len() && cp.cursor.char_offset() == lx.cursor.char_offset(), "C02/C03: checkpoint is the cursor snapshot");
        assert!(cp.mode_stack_len == lx.mode_stack.len(), "C09: checkpoint records the stack depth");
        assert!(super::buffer::verif::cp_counts(&cp.buffer_checkpoint) == (shadow::line_n(), shadow::tok_n(), shadow::lit_n()), "C02/C04/C07: checkpoint records the buffer lengths");
        // behavioural form of "errors are part of the checkpoint" (independent of how the checkpoint stores it):
        // an error reported while lexing speculatively is discarded by the rollback, every earlier one - including
        // one reported at the very offset of the checkpoint - survives it
        let errs_at_cp = lx.errors.len();
        let speculative: bool = kani::any();
        if speculative {
            lx.sh_emit_error(ErrorKind::MissingExpectedAssign);
        }
        lx.rollback();
        assert!(lx.errors.len() == errs_at_cp, "C09: rollback discards exactly the errors recorded since the checkpoint");
        assert!(lx.checkpoint.is_none() && lx.cur_byte_offset().get() as usize == t.byte_at(pre.pi), "C01/C02: rollback returns to the checkpoint and releases it");
        kani::cover!(speculative && errs_at_cp == 1, "an error before the checkpoint at the same offset and one after it");
        std::mem::forget(lx);
    }
}

lx_token_harness! {
    #[kani::unwind(6)]
    fn lx_token_macro_def_name() {
        let t = Txt::<3, 16>::any(PFX, &[]);
        kani::assume(t.n >= 1);
        let mut lx = setup(&t, &[LexerMode::Default, LexerMode::MacroStatOptionsTextExpr, LexerMode::MaybeMacroDefArgs, LexerMode::MacroDefName]);
        let pre = snapshot(&lx, &t);
        lx.lex_token(t.ch[0]);
        let pi = check_common(&lx, &t, &pre);
        check_progress::<3, 16, 2>(&lx, &t, &pre, pi);
        assert!(lx.mode_stack.len() == pre.stack_len - 1, "C01: the macro name mode is consumed by one step");
        let c0 = t.ch[0];
        if c0.is_ascii_alphabetic() || c0 == '_' {
            // maximal run of ASCII name characters
            let mut e = 1;
            let mut i = 1;
            while i < 3 {
                if e == i && i < t.n && (t.ch[i].is_ascii_alphanumeric() || t.ch[i] == '_') {
                    e = i + 1;
                }
                i += 1;
            }
            assert!(pi == e && shadow::tok_n() == pre.tok_n + 1 && lx.errors.len() == pre.err_n, "C06: macro name is the maximal ASCII identifier");
            let tk = shadow::tok(pre.tok_n);
            assert!(tk.token_type == TokenType::Identifier && tk.channel == TokenChannel::DEFAULT, "C06: macro name is an Identifier token");
        } else {
            assert!(pi == pre.pi && shadow::tok_n() == pre.tok_n && lx.errors.len() == pre.err_n + 1 && lx.errors[pre.err_n].error_kind() == ErrorKind::InvalidMacroDefName, "C09: an invalid macro name is reported and nothing is consumed");
        }
        kani::cover!(pi == 3);
        kani::cover!(pi == pre.pi && !c0.is_ascii());
        std::mem::forget(lx);
    }
}

// =============================================================================================
// dispatch_macro_call_or_stat: the mode sequence pre-loaded for every macro keyword (C14, C10, C12-ish),
// macro nesting / pending-statement bookkeeping (C15), MacroSep emission (C18).

pub(crate) fn any_call_or_stat_kw() -> TokenTypeMacroCallOrStat {
    let x: u16 = kani::any();
    kani::assume(x >= TokenType::MacroIdentifier as u16 && x <= TokenType::KwmRun as u16);
    TokenTypeMacroCallOrStat::try_from(unsafe { std::mem::transmute::<u16, TokenType>(x) }).unwrap()
}

const WS_M: LexerMode = LexerMode::WsOrCStyleCommentOnly;
const fn exp(tt: TokenType) -> LexerMode {
    LexerMode::ExpectSymbol(tt, TokenChannel::DEFAULT)
}
const fn exp_h(tt: TokenType) -> LexerMode {
    LexerMode::ExpectSymbol(tt, TokenChannel::HIDDEN)
}
fn eval_m(nm: MacroEvalNumericMode, na: MacroEvalNextArgumentMode, stat: bool, semi: bool, mask: bool) -> LexerMode {
    LexerMode::MacroEval { macro_eval_flags: MacroEvalExprFlags::new(nm, na, stat, semi, mask), pnl: 0 }
}
fn val_m(populate: bool, toc: bool) -> LexerMode {
    LexerMode::MacroCallValue { flags: MacroArgNameValueFlags::new(MacroArgContext::BuiltInMacro, populate, toc), pnl: 0 }
}

/// The expectation table of DESIGN.md §4.C14 (bottom of the pushed suffix first): what must be on
/// the stack after the keyword token. Written from the documented statement/function grammar.
pub(crate) fn ref_preload(kw: TokenTypeMacroCallOrStat, allow_label: bool) -> ([LexerMode; 14], usize) {
    use MacroEvalNextArgumentMode as NA;
    use MacroEvalNumericMode as NM;
    use TokenTypeMacroCallOrStat as K;
    let mut m: [LexerMode; 14] = [const { LexerMode::Default }; 14];
    let mut n = 0usize;
    let mut push = |x: LexerMode| {
        m[n] = x;
        n += 1;
    };
    match kw {
        K::KwmStr | K::KwmNrStr => {
            push(exp_h(TokenType::RPAREN));
            push(LexerMode::MacroStrQuotedExpr { mask_macro: kw == K::KwmNrStr, pnl: 0 });
            push(exp_h(TokenType::LPAREN));
            push(WS_M);
        }
        K::KwmEval | K::KwmSysevalf => {
            let f = kw == K::KwmSysevalf;
            push(exp(TokenType::RPAREN));
            push(eval_m(if f { NM::Float } else { NM::Integer }, if f { NA::MacroArg } else { NA::None }, false, false, false));
            push(WS_M);
            push(exp(TokenType::LPAREN));
            push(WS_M);
        }
        K::KwmScan | K::KwmQScan | K::KwmKScan | K::KwmQKScan | K::KwmSubstr | K::KwmQSubstr | K::KwmKSubstr | K::KwmQKSubstr => {
            let scan = matches!(kw, K::KwmScan | K::KwmQScan | K::KwmKScan | K::KwmQKScan);
            push(exp(TokenType::RPAREN));
            push(eval_m(NM::Integer, if scan { NA::MacroArg } else { NA::SingleEvalExpr }, false, false, true));
            push(WS_M);
            push(exp(TokenType::COMMA));
            push(val_m(false, true));
            push(WS_M);
            push(exp(TokenType::LPAREN));
            push(WS_M);
        }
        K::KwmDatatyp | K::KwmLowcase | K::KwmKLowcase | K::KwmCmpres | K::KwmQCmpres | K::KwmKCmpres | K::KwmQKCmpres | K::KwmLeft | K::KwmQLeft | K::KwmKLeft | K::KwmQKLeft | K::KwmTrim | K::KwmQTrim | K::KwmKTrim | K::KwmQKTrim => {
            push(exp(TokenType::RPAREN));
            push(val_m(true, true));
            push(WS_M);
            push(exp(TokenType::LPAREN));
            push(WS_M);
        }
        K::KwmIndex | K::KwmKIndex | K::KwmLength | K::KwmKLength | K::KwmQLowcase | K::KwmQKLowcase | K::KwmUpcase | K::KwmKUpcase | K::KwmQUpcase | K::KwmQKUpcase | K::KwmSysmexecname | K::KwmSysprod | K::KwmQuote | K::KwmNrQuote | K::KwmBquote | K::KwmNrBquote | K::KwmSuperq | K::KwmUnquote | K::KwmSymExist | K::KwmSymGlobl | K::KwmSymLocal | K::KwmSysget | K::KwmSysmacexec | K::KwmSysmacexist => {
            push(exp(TokenType::RPAREN));
            push(val_m(false, false));
            push(WS_M);
            push(exp(TokenType::LPAREN));
            push(WS_M);
        }
        K::KwmCompstor | K::KwmValidchs | K::KwmVerify | K::KwmKVerify => {
            push(exp(TokenType::RPAREN));
            push(LexerMode::MacroCallArgOrValue { flags: MacroArgNameValueFlags::new(MacroArgContext::MacroCall, true, true) });
            push(WS_M);
            push(exp(TokenType::LPAREN));
            push(WS_M);
        }
        K::MacroIdentifier => {
            push(LexerMode::MaybeMacroCallArgsOrLabel { check_macro_label: allow_label });
            push(WS_M);
        }
        K::KwmSysmexecdepth => {}
        K::KwmSysfunc | K::KwmQSysfunc => {
            push(exp(TokenType::RPAREN));
            push(LexerMode::MaybeTailMacroArgValue);
            push(WS_M);
            push(exp(TokenType::RPAREN));
            push(eval_m(NM::Float, NA::EvalExpr, false, false, true));
            push(WS_M);
            push(exp(TokenType::LPAREN));
            push(WS_M);
            push(LexerMode::MacroNameExpr(false, Some(ErrorKind::MissingSysfuncFuncName)));
            push(WS_M);
            push(exp(TokenType::LPAREN));
            push(WS_M);
        }
        K::KwmInclude | K::KwmList | K::KwmThen | K::KwmElse => push(WS_M),
        K::KwmReturn | K::KwmRun | K::KwmSysmstoreclear | K::KwmEnd => {
            push(LexerMode::ExpectSemiOrEOF);
            push(WS_M);
        }
        K::KwmPut | K::KwmSysexec => {
            push(LexerMode::ExpectSemiOrEOF);
            push(LexerMode::MacroSemiTerminatedTextExpr);
            push(WS_M);
        }
        K::KwmAbort | K::KwmDisplay | K::KwmGoto | K::KwmInput | K::KwmSymdel | K::KwmSyslput | K::KwmSysrput | K::KwmWindow | K::KwmMend => {
            push(LexerMode::ExpectSemiOrEOF);
            push(LexerMode::MacroStatOptionsTextExpr);
            push(WS_M);
        }
        K::KwmDo => {
            push(LexerMode::MacroDo);
            push(WS_M);
        }
        K::KwmTo | K::KwmBy => {
            push(LexerMode::ExpectSemiOrEOF);
            push(eval_m(NM::Integer, NA::None, kw == K::KwmTo, true, false));
            push(WS_M);
        }
        K::KwmUntil | K::KwmWhile => {
            push(LexerMode::ExpectSemiOrEOF);
            push(WS_M);
            push(exp(TokenType::RPAREN));
            push(eval_m(NM::Integer, NA::None, false, false, false));
            push(WS_M);
            push(exp(TokenType::LPAREN));
            push(WS_M);
        }
        K::KwmLet => {
            push(LexerMode::ExpectSemiOrEOF);
            push(LexerMode::MacroSemiTerminatedTextExpr);
            push(WS_M);
            push(exp(TokenType::ASSIGN));
            push(WS_M);
            push(LexerMode::MacroNameExpr(false, Some(ErrorKind::InvalidMacroLetVarName)));
            push(WS_M);
        }
        K::KwmLocal | K::KwmGlobal => {
            push(LexerMode::MacroLocalGlobal { is_local: kw == K::KwmLocal });
            push(WS_M);
        }
        K::KwmIf => {
            push(eval_m(NM::Integer, NA::None, true, true, false));
            push(WS_M);
        }
        K::KwmCopy | K::KwmSysmacdelete => {
            push(LexerMode::ExpectSemiOrEOF);
            push(LexerMode::MacroStatOptionsTextExpr);
            push(WS_M);
            push(exp(TokenType::FSLASH));
            push(WS_M);
            push(LexerMode::MacroNameExpr(false, Some(ErrorKind::InvalidOrOutOfOrderStatement)));
            push(WS_M);
        }
        K::KwmMacro => {
            push(LexerMode::ExpectSemiOrEOF);
            push(LexerMode::MacroStatOptionsTextExpr);
            push(WS_M);
            push(LexerMode::MaybeMacroDefArgs);
            push(WS_M);
            push(LexerMode::MacroDefName);
            push(WS_M);
        }
        K::KwmSyscall => {
            push(LexerMode::ExpectSemiOrEOF);
            push(WS_M);
            push(exp(TokenType::RPAREN));
            push(eval_m(NM::Float, NA::EvalExpr, false, false, true));
            push(WS_M);
            push(exp(TokenType::LPAREN));
            push(WS_M);
            push(LexerMode::MacroNameExpr(false, Some(ErrorKind::MissingSyscallRoutineName)));
            push(WS_M);
        }
    }
    (m, n)
}

macro_rules! lx_preload_harness {
    ($name:ident, $top:expr, $masked:literal) => {
        lx_harness! {
            #[kani::unwind(16)]
            fn $name() {
                let t = Txt::<1, 8>::any(PFX, &[]);
                let kw = any_call_or_stat_kw();
                let allow_label: bool = kani::any();
                let mut lx = setup(&t, &[LexerMode::Default, $top]);
                // look-behind: one earlier default-channel token of any type
                let prev_tt = any_token_type();
                shadow::preload_token(shadow::mk_token(TokenChannel::DEFAULT, prev_tt, 1, 1, 0, Payload::None));
                let nest0: u32 = kani::any();
                kani::assume(nest0 <= 3);
                lx.macro_nesting_level = nest0;
                let pend0: bool = kani::any();
                lx.set_pending_stat(pend0);
                let two_frames: bool = kani::any();
                if two_frames {
                    lx.push_pending_stat(pend0);
                }
                let pl0 = lx.pending_stat_stack.len();
                let pre = snapshot(&lx, &t);
                lx.dispatch_macro_call_or_stat(kw, allow_label);
                let pi = check_common(&lx, &t, &pre);
                assert!(pi == pre.pi && lx.errors.len() == pre.err_n, "C01: keyword dispatch consumes nothing and reports nothing");
                // tokens: [MacroSep]? keyword
                let kw_tt: TokenType = kw.into();
                let kw_ch = if matches!(kw, TokenTypeMacroCallOrStat::KwmStr | TokenTypeMacroCallOrStat::KwmNrStr) { TokenChannel::HIDDEN } else { TokenChannel::DEFAULT };
                #[cfg(feature = "macro_sep")]
                let sep = needs_macro_sep(Some(prev_tt), kw_tt) && !$masked;
                #[cfg(not(feature = "macro_sep"))]
                let sep = false;
                assert!(shadow::tok_n() == pre.tok_n + 1 + sep as usize, "C18: the keyword yields its token, preceded by at most one MacroSep");
                if sep {
                    let st = shadow::tok(pre.tok_n);
                    assert!(st.token_type == TokenType::MacroSep && st.channel == TokenChannel::DEFAULT && matches!(st.payload, Payload::None), "C18: separator is a default-channel MacroSep");
                    assert!(st.byte_offset == shadow::tok(pre.tok_n + 1).byte_offset, "C18: MacroSep is zero-width, at the keyword's own mark");
                }
                let kt = shadow::tok(pre.tok_n + sep as usize);
                assert!(kt.token_type == kw_tt && kt.channel == kw_ch && matches!(kt.payload, Payload::None), "C06/C10: keyword token type and channel (%str/%nrstr hidden)");
                // pre-loaded expectation sequence
                let (exp_modes, n) = ref_preload(kw, allow_label);
                assert!(lx.mode_stack.len() == pre.stack_len + n, "C14/C10: number of modes pre-loaded for the keyword");
                let mut i = 0;
                while i < 14 {
                    if i < n {
                        assert!(lx.mode_stack[pre.stack_len + i] == exp_modes[i], "C14/C10: expectation sequence pre-loaded for the keyword");
                    }
                    i += 1;
                }
                // bookkeeping that later code (and C15's closed-boundary configuration) relies on
                let nest1 = match kw {
                    TokenTypeMacroCallOrStat::KwmMacro => nest0 + 1,
                    TokenTypeMacroCallOrStat::KwmMend => nest0.saturating_sub(1),
                    _ => nest0,
                };
                assert!(lx.macro_nesting_level == nest1, "C15/C11: macro nesting level after the keyword");
                let pl1 = lx.pending_stat_stack.len();
                match kw {
                    TokenTypeMacroCallOrStat::KwmDo => assert!(pl1 == pl0 + 1 && lx.pending_stat() == pend0, "C15/C11: %do opens a pending-statement frame copying the current flag"),
                    TokenTypeMacroCallOrStat::KwmMacro => assert!(pl1 == pl0 + 1 && !lx.pending_stat(), "C15/C11: %macro opens a fresh pending-statement frame"),
                    TokenTypeMacroCallOrStat::KwmEnd | TokenTypeMacroCallOrStat::KwmMend => assert!(pl1 == if pl0 > 1 { pl0 - 1 } else { 1 }, "C15/C11: %end/%mend close a pending-statement frame, never the last one"),
                    _ => assert!(pl1 == pl0 && lx.pending_stat() == pend0, "C15/C11: other keywords leave the pending-statement stack alone"),
                }
                assert!(lx.checkpoint.is_some() == (kw == TokenTypeMacroCallOrStat::MacroIdentifier), "C01/C09: only a user macro identifier takes a checkpoint");
                kani::cover!(sep || !cfg!(feature = "macro_sep") || $masked, "MacroSep emitted");
                kani::cover!(kw == TokenTypeMacroCallOrStat::KwmSysfunc);
                kani::cover!(kw == TokenTypeMacroCallOrStat::KwmQKSubstr);
                kani::cover!(kw == TokenTypeMacroCallOrStat::KwmMend && nest0 == 1 && two_frames);
                std::mem::forget(lx);
            }
        }
    };
}
lx_preload_harness!(lx_preload_default, LexerMode::MacroStatOptionsTextExpr, false);
lx_preload_harness!(lx_preload_in_arg_value, LexerMode::MacroCallValue { flags: any_arg_flags(), pnl: kani::any() }, true);

// =============================================================================================
// After a macro identifier: '(' starts arguments, ':' makes it a label, anything else rolls back
// to right after the identifier (C01 checkpoint discipline, C02/C04 rollback, C09, C10 label+colon, C13)

lx_harness! {
    #[kani::unwind(6)]
    fn lx_maybe_args_or_label() {
        let t = Txt::<3, 16>::any(PFX, &[]);
        kani::assume(t.n >= 1);
        let check: bool = kani::any();
        let mut lx = setup(&t, &[LexerMode::Default]);
        let prev_tt = any_token_type();
        shadow::preload_token(shadow::mk_token(TokenChannel::DEFAULT, prev_tt, 1, 1, 0, Payload::None));
        // the macro identifier token just lexed (zero-width stand-in at the cursor), then what
        // dispatch_macro_call_or_stat does for it: checkpoint + [MaybeMacroCallArgsOrLabel, Ws]
        lx.start_token();
        lx.emit_token(TokenChannel::DEFAULT, TokenType::MacroIdentifier, Payload::None);
        lx.maybe_expect_macro_call_args_or_label(check);
        let base = snapshot(&lx, &t);
        // the Ws mode consumes a whitespace run (possibly with line feeds), then pops
        if t.ch[0].is_whitespace() {
            lx.start_token();
            lx.lex_ws();
        }
        lx.pop_mode();
        let mid = snapshot(&lx, &t);
        kani::assume(mid.pi < t.n);
        let c = t.ch[mid.pi];
        // the macro_sep build inserts a token before the label: that arm has its own real-buffer harness
        kani::assume(!(cfg!(feature = "macro_sep") && c == ':' && check));
        lx.lex_maybe_macro_call_args_or_label(c, check);
        let pi = check_common(&lx, &t, &base);
        assert!(lx.checkpoint.is_none(), "C01: the checkpoint taken after a macro identifier is released in every arm");
        assert!(lx.errors.len() == base.err_n, "C09: no error from the look-ahead after a macro identifier");
        if c == '(' {
            assert!(pi == mid.pi + 1 && shadow::tok_n() == mid.tok_n + 1, "C13: the call's own '(' is a delimiter token");
            let tk = shadow::tok(mid.tok_n);
            assert!(tk.token_type == TokenType::LPAREN && tk.channel == TokenChannel::DEFAULT && tk.byte_offset.get() as usize == t.byte_at(mid.pi), "C13/C10: LPAREN token at the parenthesis");
            assert!(lx.mode_stack.len() == 4, "C14: argument modes pre-loaded after '('");
            assert!(lx.mode_stack[1] == LexerMode::ExpectSymbol(TokenType::RPAREN, TokenChannel::DEFAULT), "C14: the closing ')' is expected");
            assert!(lx.mode_stack[2] == LexerMode::MacroCallArgOrValue { flags: MacroArgNameValueFlags::new(MacroArgContext::MacroCall, true, true) } && lx.mode_stack[3] == LexerMode::WsOrCStyleCommentOnly, "C13: first argument may be named; leading blanks are insignificant");
        } else if c == ':' && check {
            assert!(pi == mid.pi + 1 && shadow::tok_n() == mid.tok_n + 1 && lx.mode_stack.len() == 1, "C10: label colon consumed, mode popped");
            let tk = shadow::tok(mid.tok_n);
            assert!(tk.token_type == TokenType::COLON && tk.channel == TokenChannel::HIDDEN, "C10/C06: a macro label is followed by its hidden colon");
            assert!(shadow::tok(base.tok_n - 1).token_type == TokenType::MacroLabel, "C10: the macro identifier before ':' becomes a MacroLabel");
        } else {
            // rollback to right after the identifier: whitespace token and its lines are discarded
            assert!(pi == base.pi && shadow::tok_n() == base.tok_n && shadow::line_n() == base.line_n && lx.mode_stack.len() == 1, "C02/C04: rollback discards the speculative whitespace token, its lines and the look-ahead modes");
            assert!(lx.cur_token_byte_offset.get() as usize == t.byte_at(base.pi), "C02: rollback restores the token start mark");
            assert!(shadow::tok(base.tok_n - 1).token_type == TokenType::MacroIdentifier, "C10: without ':' the identifier stays a macro identifier");
        }
        kani::cover!(c == '(' && mid.pi > 0);
        kani::cover!(cfg!(feature = "macro_sep") || (c == ':' && check && t.nl_upto(mid.pi) > 0));
        kani::cover!(c != '(' && c != ':' && t.nl_upto(mid.pi) > 0, "rollback over a line feed");
        std::mem::forget(lx);
    }
}

/// The label arm in the macro_sep build: a MacroSep is inserted before the label, at the label's
/// own mark. `insert_token` is replaced by the shadow (proved equivalent in buffer.rs);
/// `iter_token_infos` returns an opaque iterator type and cannot be stubbed, so the real token vector
/// mirrors the shadow tokens as they are when the iterator runs (label already retyped).
/// (With the real buffer CBMC runs out of memory at 40 GB on Vec::insert's memmove.)
#[cfg(feature = "macro_sep")]
lx_harness! {
    #[kani::unwind(6)]
    #[kani::stub(WorkTokenizedBuffer::insert_token, WorkTokenizedBuffer::sh_insert_token)]
    fn lx_label_sep() {
        let t = Txt::<2, 12>::any(PFX, &[]);
        kani::assume(t.n >= 1);
        let mut lx = setup(&t, &[LexerMode::Default]);
        let prev_tt = any_token_type();
        let has_prev: bool = kani::any();
        if has_prev {
            shadow::preload_token(shadow::mk_token(TokenChannel::DEFAULT, prev_tt, 1, 1, 0, Payload::None));
        }
        // possibly a hidden / comment token between the previous default-channel token and the label
        let between: bool = kani::any();
        if between {
            let comment: bool = kani::any();
            shadow::preload_token(shadow::mk_token(if comment { TokenChannel::COMMENT } else { TokenChannel::HIDDEN }, if comment { TokenType::CStyleComment } else { TokenType::WS }, 2, 1, 0, Payload::None));
        }
        lx.start_token();
        lx.emit_token(TokenChannel::DEFAULT, TokenType::MacroIdentifier, Payload::None);
        let label_at = shadow::tok_n() - 1;
        let label = shadow::tok(label_at);
        lx.maybe_expect_macro_call_args_or_label(true);
        let base = snapshot(&lx, &t);
        if t.ch[0].is_whitespace() {
            lx.start_token();
            lx.lex_ws();
        }
        lx.pop_mode();
        // the last token started before the colon may be a comment on a later line than the label
        // (`%lbl` line feed `/*c*/:`): the token start line is then not the label's line
        if kani::any() {
            lx.cur_token_line = super::buffer::verif::line_idx(shadow::line_n() as u32 - 1);
        }
        let mid = snapshot(&lx, &t);
        kani::assume(mid.pi < t.n && t.ch[mid.pi] == ':');
        // mirror (label shown as already retyped, which is the state iter_token_infos observes)
        let n0 = shadow::tok_n();
        assert!(n0 <= 4);
        let mut mir = [label; 4];
        let mut i = 0;
        while i < 4 {
            if i < n0 {
                mir[i] = shadow::tok(i);
                if i == label_at {
                    mir[i].token_type = TokenType::MacroLabel;
                }
            }
            i += 1;
        }
        lx.buffer.verif_set_tokens(&mir, n0);
        lx.lex_maybe_macro_call_args_or_label(':', true);
        let sep = needs_macro_sep(if has_prev { Some(prev_tt) } else { None }, TokenType::MacroLabel);
        let n1 = shadow::tok_n();
        assert!(n1 == n0 + 1 + sep as usize, "C18: the label arm adds the hidden colon and at most one MacroSep");
        let lab = shadow::tok(label_at + sep as usize);
        assert!(lab.token_type == TokenType::MacroLabel && lab.byte_offset == label.byte_offset && lab.start == label.start && lab.line == label.line, "C10/C18: the identifier becomes the label, unchanged otherwise");
        if sep {
            let st = shadow::tok(label_at);
            assert!(st.token_type == TokenType::MacroSep && st.channel == TokenChannel::DEFAULT && matches!(st.payload, Payload::None), "C18: MacroSep directly before the label");
            assert!(st.byte_offset == label.byte_offset && st.start == label.start && st.line == label.line, "C18/C05/C04: the inserted MacroSep carries the label's own offset and line");
        }
        let col = shadow::tok(n1 - 1);
        assert!(col.token_type == TokenType::COLON && col.channel == TokenChannel::HIDDEN && col.byte_offset.get() as usize == t.byte_at(mid.pi), "C10: hidden colon after the label");
        assert!(lx.checkpoint.is_none() && lx.mode_stack.len() == 1 && lx.errors.len() == base.err_n, "C01/C18: the label arm releases the checkpoint");
        if has_prev {
            assert!(shadow::tok(0).token_type == prev_tt, "C18: earlier tokens are untouched");
        }
        kani::cover!(sep && t.ch[0] == '\n', "separator before a label whose colon is on the next line");
        kani::cover!(!sep && has_prev && between, "no separator after ';' / a label / %then / %else although a hidden token stands between");
        kani::cover!(!sep && has_prev);
        std::mem::forget(lx);
    }
}

// =============================================================================================
// Numeric literals in open code (C08, C16): disambiguation between decimal and hex notation, with
// the two parsers replaced by their contracts (their integer paths are checked in numeric.rs).

pub(crate) static mut DEC_RES: (bool, usize, u16, bool) = (false, 0, 0, false);
pub(crate) static mut HEX_RES: (bool, usize, u16, bool) = (false, 0, 0, false);

fn numeric_prefix_len(source: &str) -> usize {
    // numeric text is ASCII: digits, hex letters, '.', exponent sign
    let b = source.as_bytes();
    let mut l = 0usize;
    let mut i = 0;
    while i < 4 {
        if i < b.len() && l == i && (b[i].is_ascii_hexdigit() || matches!(b[i], b'.' | b'+' | b'-')) {
            l += 1;
        }
        i += 1;
    }
    l
}

fn any_numeric_result(source: &str, which_hex: bool) -> Option<NumericParserResult> {
    let max = numeric_prefix_len(source);
    // contract: the decimal parser always recognises ".<digit>" (the only way the lexer calls it on a dot)
    let some: bool = kani::any::<bool>() || (!which_hex && source.as_bytes().first() == Some(&b'.'));
    let len: usize = kani::any();
    let ty: u8 = kani::any();
    let err: bool = kani::any();
    if !some || max == 0 {
        unsafe {
            if which_hex {
                HEX_RES = (false, 0, 0, false);
            } else {
                DEC_RES = (false, 0, 0, false);
            }
        }
        return None;
    }
    kani::assume(len >= 1 && len <= max);
    let tt = match ty % 3 {
        0 => TokenType::IntegerLiteral,
        1 => TokenType::FloatLiteral,
        _ => TokenType::FloatExponentLiteral,
    };
    unsafe {
        if which_hex {
            HEX_RES = (true, len, tt as u16, err);
        } else {
            DEC_RES = (true, len, tt as u16, err);
        }
    }
    Some(NumericParserResult {
        token: (tt, if tt == TokenType::IntegerLiteral { Payload::Integer(len as u64) } else { Payload::Float(len as f64) }),
        length: NonZeroUsize::new(len).unwrap(),
        error: if err { Some(ErrorKind::InvalidNumericLiteral) } else { None },
    })
}
pub(crate) fn stub_try_parse_decimal(source: &str, _i: bool, _f: bool) -> Option<NumericParserResult> {
    any_numeric_result(source, false)
}
pub(crate) fn stub_try_parse_hex(source: &str) -> Option<NumericParserResult> {
    any_numeric_result(source, true)
}

/// The answers of the two numeric parsers are drawn by the harness BEFORE the call (any outcome within their
/// contract), so that the reference decision below does not depend on which parser the code chose to consult.
fn pre_numeric_result(which_hex: bool) -> Option<NumericParserResult> {
    let (some, len, ty, err) = unsafe { if which_hex { HEX_RES } else { DEC_RES } };
    if !some {
        return None;
    }
    let tt = if ty == TokenType::IntegerLiteral as u16 { TokenType::IntegerLiteral } else if ty == TokenType::FloatLiteral as u16 { TokenType::FloatLiteral } else { TokenType::FloatExponentLiteral };
    Some(NumericParserResult {
        token: (tt, if tt == TokenType::IntegerLiteral { Payload::Integer(len as u64) } else { Payload::Float(len as f64) }),
        length: NonZeroUsize::new(len).unwrap(),
        error: if err { Some(ErrorKind::InvalidNumericLiteral) } else { None },
    })
}
pub(crate) fn pre_try_parse_decimal(_source: &str, _i: bool, _f: bool) -> Option<NumericParserResult> {
    pre_numeric_result(false)
}
pub(crate) fn pre_try_parse_hex(_source: &str) -> Option<NumericParserResult> {
    pre_numeric_result(true)
}
fn draw_numeric_result(max: usize, force_some: bool) -> (bool, usize, u16, bool) {
    let some: bool = kani::any::<bool>() || force_some;
    let len: usize = kani::any();
    let ty: u8 = kani::any();
    let err: bool = kani::any();
    if !some || max == 0 {
        return (false, 0, 0, false);
    }
    kani::assume(len >= 1 && len <= max);
    let tt = match ty % 3 {
        0 => TokenType::IntegerLiteral,
        1 => TokenType::FloatLiteral,
        _ => TokenType::FloatExponentLiteral,
    };
    (true, len, tt as u16, err)
}

lx_harness! {
    #[kani::unwind(6)]
    #[kani::stub(try_parse_decimal, pre_try_parse_decimal)]
    #[kani::stub(try_parse_hex_integer, pre_try_parse_hex)]
    fn lx_numeric_literal() {
        let t = Txt::<4, 20>::any(PFX, &[]);
        kani::assume(t.n >= 1);
        let seen_dot: bool = kani::any();
        if seen_dot {
            kani::assume(t.ch[0] == '.' && t.n >= 2 && t.ch[1].is_ascii_digit());
        } else {
            kani::assume(t.ch[0].is_ascii_digit());
        }
        // numeric text is ASCII: digits, hex letters, '.', exponent sign
        let mut max = 0usize;
        let mut i = 0;
        while i < 4 {
            if i < t.n && max == i && (t.ch[i].is_ascii_hexdigit() || matches!(t.ch[i], '.' | '+' | '-')) {
                max += 1;
            }
            i += 1;
        }
        // contract: the decimal parser always recognises ".<digit>" (the only way the lexer calls it on a dot)
        unsafe {
            DEC_RES = draw_numeric_result(max, seen_dot);
            HEX_RES = draw_numeric_result(max, false);
        }
        let mut lx = setup(&t, &[LexerMode::Default]);
        let pre = snapshot(&lx, &t);
        lx.lex_numeric_literal(seen_dot);
        let (dec, hex) = unsafe { (DEC_RES, HEX_RES) };
        let pi = check_common(&lx, &t, &pre);
        check_progress::<4, 20, 2>(&lx, &t, &pre, pi);
        let hex_ok = !seen_dot && hex.0;
        let is_x = |i: usize| matches!(ch_at(&t, i), Some('x' | 'X'));
        // longest match, tie broken by a trailing x
        let (len, tt, perr, check_x) = if dec.0 && hex_ok {
            if dec.1 > hex.1 {
                (dec.1, dec.2, dec.3, false)
            } else if hex.1 > dec.1 || is_x(hex.1) {
                (hex.1, hex.2, hex.3, true)
            } else {
                (dec.1, dec.2, dec.3, false)
            }
        } else if dec.0 {
            (dec.1, dec.2, dec.3, false)
        } else if hex_ok {
            (hex.1, hex.2, hex.3, true)
        } else {
            // neither parser: all leading digits, flagged invalid
            let mut l = 0;
            let mut i = 0;
            while i < 4 {
                if i < t.n && l == i && t.ch[i].is_ascii_digit() {
                    l += 1;
                }
                i += 1;
            }
            (l, TokenType::FloatLiteral as u16, true, false)
        };
        let has_x = check_x && is_x(len);
        assert!(pi == pre.pi + len + has_x as usize, "C08/C16: numeric token spans the longest notation, plus the x of hex notation only (either case)");
        assert!(shadow::tok_n() == pre.tok_n + 1, "C08: one numeric token");
        let tk = shadow::tok(pre.tok_n);
        assert!(tk.token_type as u16 == tt && tk.channel == TokenChannel::DEFAULT, "C08: token type follows from the notation chosen");
        let missing_x = check_x && !has_x;
        assert!(lx.errors.len() == pre.err_n + perr as usize + missing_x as usize, "C08: numeric errors = parser error + missing x");
        if missing_x {
            assert!(lx.errors[lx.errors.len() - 1].error_kind() == ErrorKind::UnterminatedHexNumericLiteral, "C08: hex notation without x is reported");
        }
        kani::cover!(dec.0 && hex_ok && dec.1 == hex.1 && is_x(hex.1) && t.ch[hex.1] == 'x', "tie decided by a lower-case x");
        kani::cover!(dec.0 && hex_ok && dec.1 > hex.1 && is_x(dec.1), "decimal wins although an x follows");
        kani::cover!(missing_x);
        kani::cover!(seen_dot);
        std::mem::forget(lx);
    }
}

// =============================================================================================
// Macro variable expressions (C06: resolve tokens are 2^k ampersands with payload k; no empty tokens)

pub(crate) fn stub_resolve_ops(amp_count: u32) -> Vec<u8> {
    // set bits of the count, highest first (proved for the real function by mac_resolve_ops_spec)
    let mut v = Vec::with_capacity(4);
    kani::assume(amp_count < 8);
    if amp_count & 4 != 0 {
        v.push(2u8);
    }
    if amp_count & 2 != 0 {
        v.push(1u8);
    }
    if amp_count & 1 != 0 {
        v.push(0u8);
    }
    v
}

macro_rules! lx_macro_var_expr_harness {
    ($k:literal, $b:literal, $uw:literal, $name:ident, $fixed:expr) => {
        lx_macro_var_expr_harness!($k, $b, $uw, $name, $fixed, Txt::any(PFX, $fixed));
    };
    ($k:literal, $b:literal, $uw:literal, $name:ident, $fixed:expr, $gen:expr) => {
lx_harness! {
    #[kani::unwind($uw)]
    #[kani::stub(get_macro_resolve_ops_from_amps, stub_resolve_ops)]
    fn $name() {
        let t: Txt<$k, $b> = $gen;
        // ASCII keeps the query small; the non-ASCII name paths are the same eat_while loop
        let mut i = 0;
        while i < $k {
            kani::assume(i >= t.n || t.ch[i].is_ascii());
            i += 1;
        }
        let mut lx = setup(&t, &[LexerMode::Default]);
        let pre = snapshot(&lx, &t);
        let r = lx.lex_macro_var_expr();
        let (is_m, _cnt) = ref_macro_amp(&t, 0);
        assert!(r == is_m, "C13/C06: macro variable trigger = ampersands followed by a name start");
        if !r {
            assert!(lx.cur_byte_offset().get() as usize == t.byte_at(pre.pi) && shadow::tok_n() == pre.tok_n, "C06: a plain ampersand run is left to the caller");
        } else {
            // tokens tile the consumed text; each has the shape of its type; none is empty
            let p = lx.cur_byte_offset().get() as usize;
            let pi = t.idx_of(p).unwrap();
            let tn = shadow::tok_n();
            assert!(tn > pre.tok_n && tn <= pre.tok_n + 6, "C01: bounded number of tokens");
            let mut j = 0;
            while j < 6 {
                let jj = pre.tok_n + j;
                if jj < tn {
                    let tk = shadow::tok(jj);
                    let s = t.idx_of(tk.byte_offset.get() as usize).unwrap();
                    let e = if jj + 1 < tn { t.idx_of(shadow::tok(jj + 1).byte_offset.get() as usize).unwrap() } else { pi };
                    assert!(e > s, "C06: empty token inside a macro variable expression");
                    assert!(tk.start.get() == t.char_at(s) && tk.channel == TokenChannel::DEFAULT, "C03/C06: token offsets/channel");
                    match tk.token_type {
                        TokenType::MacroVarResolve => {
                            let k = match tk.payload {
                                Payload::Integer(k) => k,
                                _ => 99,
                            };
                            assert!(k < 3 && (e - s) as u64 == 1u64 << k, "C06: resolve token is 2^k ampersands with payload k");
                            let mut q = 0;
                            while q < $k {
                                if q >= s && q < e {
                                    assert!(t.ch[q] == '&', "C06: resolve token contains a non-ampersand");
                                }
                                q += 1;
                            }
                        }
                        TokenType::MacroVarTerm => assert!(e == s + 1 && t.ch[s] == '.', "C06: terminator token is a dot"),
                        TokenType::MacroString => assert!(ref_name_start(t.ch[s]), "C06: name part starts with a name start"),
                        _ => assert!(false, "C06: unexpected token type in a macro variable expression"),
                    }
                }
                j += 1;
            }
            assert!(t.idx_of(shadow::tok(pre.tok_n).byte_offset.get() as usize) == Some(pre.pi), "C02: first token starts where the expression starts");
            kani::cover!($k < 6 || tn >= pre.tok_n + 4, "continuation with an odd ampersand run");
            kani::cover!(shadow::tok(pre.tok_n).token_type == TokenType::MacroVarResolve && tn >= pre.tok_n + 2);
        }
        assert!(lx.errors.len() == pre.err_n && lx.mode_stack.len() == pre.stack_len);
        std::mem::forget(lx);
    }
}
    };
}
lx_macro_var_expr_harness!(3, 16, 5, lx_macro_var_expr_k3, &['&']);
lx_macro_var_expr_harness!(4, 20, 6, lx_macro_var_expr_k4, &['&']);
lx_macro_var_expr_harness!(6, 28, 7, lx_macro_var_expr_cont_k6, &['&', 'a', '&', '&', '&']);
// exactly n ASCII characters at constant byte positions
lx_macro_var_expr_harness!(3, 8, 7, lx_macro_var_expr_ascii_n3, &['&'], Txt::ascii_exact_fixed(&['&']));
lx_macro_var_expr_harness!(4, 8, 7, lx_macro_var_expr_ascii_n4, &['&'], Txt::ascii_exact_fixed(&['&']));
lx_macro_var_expr_harness!(6, 12, 8, lx_macro_var_expr_cont_ascii_n6, &['&', 'a', '&', '&', '&'], Txt::ascii_exact_fixed(&['&', 'a', '&', '&', '&']));
lx_macro_var_expr_harness!(7, 12, 9, lx_macro_var_expr_cont_ascii_n7, &['&', 'a', '&', '&', '&'], Txt::ascii_exact_fixed(&['&', 'a', '&', '&', '&']));

// =============================================================================================
// Lexer::new: byte-order mark handling (C02, C03, C17)

pub(crate) fn stub_work_buffer_new(source: &str) -> WorkTokenizedBuffer {
    WorkTokenizedBuffer::verif_new(source.len(), 4)
}

lx_harness! {
    #[kani::unwind(5)]
    #[kani::stub(WorkTokenizedBuffer::new, stub_work_buffer_new)]
    fn lx_new_bom() {
        let first: char = kani::any();
        let t = Txt::<3, 16>::any("", &[first]);
        shadow::reset(t.len);
        let src = t.as_str();
        let r = Lexer::new(src, None, None);
        assert!(r.is_ok(), "C01: Lexer::new succeeds below 4 GiB");
        let lx = r.unwrap();
        let bom = first == '\u{feff}';
        let (b, c) = if bom { (3u32, 1u32) } else { (0, 0) };
        assert!(lx.cur_byte_offset().get() == b && lx.cursor.char_offset() == c, "C17/C02: only a leading byte-order mark is skipped");
        assert!(lx.cur_token_byte_offset.get() == b && lx.cur_token_start.get() == c, "C17/C02/C03: first token starts right after the byte-order mark (byte +3, char +1)");
        assert!(shadow::line_n() == 1 && shadow::line(0) == (b, c), "C17/C04: the first line starts after the byte-order mark");
        assert!(super::buffer::verif::line_idx_get(lx.cur_token_line) == 0 && shadow::tok_n() == 0, "C02: no token yet, first line");
        assert!(lx.mode_stack.len() == 1 && lx.mode_stack[0] == LexerMode::Default && lx.checkpoint.is_none() && lx.macro_nesting_level == 0 && lx.errors.is_empty(), "C15: initial configuration");
        assert!(lx.pending_stat_stack.len() == 1 && lx.pending_stat_stack.get(0) == Some(false), "C15: initial pending-statement stack");
        kani::cover!(bom && t.n == 3);
        kani::cover!(!bom && first.len_utf8() == 3);
        std::mem::forget(lx);
    }
}

// =============================================================================================
// End of input inside a double-quoted string (C10): start token retyped iff it is the LAST token

lx_harness! {
    #[kani::unwind(4)]
    fn lx_str_expr_text_eof() {
        let t = Txt::<1, 8>::any(PFX, &[]);
        let mut i = 0;
        while i < 1 {
            kani::assume(i >= t.n || !matches!(t.ch[i], '"' | '&' | '%'));
            i += 1;
        }
        let mut lx = setup(&t, &[LexerMode::Default, LexerMode::StringExpr { allow_stat: kani::any() }]);
        // tokens so far: the opening quote, then optionally one more token on any channel
        shadow::preload_token(shadow::mk_token(TokenChannel::DEFAULT, TokenType::StringExprStart, 1, 1, 0, Payload::None));
        let more: bool = kani::any();
        let more_ch = any_channel();
        if more {
            let tt = any_token_type();
            kani::assume(tt != TokenType::StringExprStart && tt != TokenType::EOF);
            shadow::preload_token(shadow::mk_token(more_ch, tt, 2, 1, 0, Payload::None));
        }
        let pre = snapshot(&lx, &t);
        lx.start_token();
        lx.lex_str_expr_text();
        let pi = check_common(&lx, &t, &pre);
        assert!(pi == t.n && lx.mode_stack.len() == pre.stack_len - 1, "C10: an unterminated string expression is closed at end of input");
        assert!(lx.errors.len() == pre.err_n + 1 && lx.errors[pre.err_n].error_kind() == ErrorKind::UnterminatedStringLiteral, "C10: and reported");
        if more {
            assert!(shadow::tok_n() == pre.tok_n + 1 && shadow::tok(pre.tok_n).token_type == TokenType::StringExprEnd, "C10: a string expression with content gets an end token");
            assert!(shadow::tok(0).token_type == TokenType::StringExprStart && shadow::tok(1).channel == more_ch, "C10: earlier tokens keep their type and channel");
        } else {
            assert!(shadow::tok_n() == pre.tok_n && shadow::tok(0).token_type == TokenType::StringLiteral, "C10: a plain unterminated literal is the retyped start token");
        }
        kani::cover!(more && more_ch == TokenChannel::HIDDEN && t.n == 0);
        kani::cover!(!more && t.n == 1);
        std::mem::forget(lx);
    }
}

// =============================================================================================
// Dispatcher arms: first character constant per instance, followers symbolic; heavy callees that the
// arm cannot reach are cut off. Checks: common invariants (POS/LINE/TOK/errors), progress, and that
// the text tokens a dispatcher hands out are never empty (C06).

impl<'src> Lexer<'src> {
    pub(crate) fn dead_kw(&mut self, _k: TokenTypeMacroCallOrStat, _b: bool) {
        kani::assume(false);
    }
}

pub(crate) fn check_new_tokens_nonempty<const K: usize, const B: usize>(t: &Txt<K, B>, pre: &Pre, pi: usize) {
    let tn = shadow::tok_n();
    let mut jj = 0;
    while jj < NEW_TOK_MAX {
        let j = pre.tok_n + jj;
        if j < tn {
            let (s, e) = tok_range(t, j, pi);
            let tt = shadow::tok(j).token_type;
            if matches!(tt, TokenType::MacroString | TokenType::WS | TokenType::StringExprText | TokenType::CStyleComment | TokenType::MacroComment | TokenType::Identifier) {
                assert!(e > s, "C06: empty token of a type that must not be empty");
            }
        }
        jj += 1;
    }
}

macro_rules! lx_dispatch_arm_harness {
    ($k:literal, $b:literal, $uw:literal, $name:ident, $modes:ident, $c:literal, |$t:ident| $asm:expr, |$lx:ident, $p:ident, $e:ident, $a:ident, $bb:ident| $call:expr) => {
        lx_harness! {
            #[kani::unwind($uw)]
            #[kani::stub(Lexer::dispatch_macro_call_or_stat, Lexer::dead_kw)]
            #[kani::stub(get_macro_resolve_ops_from_amps, stub_resolve_ops)]
            fn $name() {
                // the first character is a literal constant at the call site, so that CBMC folds the
                // dispatcher's `match` to the one arm under test
                let $t = Txt::<$k, $b>::any(PFX, &[$c]);
                kani::assume($asm);
                let t = $t;
                let $e = any_eval_flags();
                let $a = any_arg_flags();
                let $p: u32 = kani::any();
                kani::assume($p < u32::MAX - 8);
                let $bb: bool = kani::any();
                let _ = ($e, $a, $p, $bb);
                let modes_arr = $modes!($p, $e, $a, $bb);
                let mut $lx = setup(&t, &modes_arr);
                shadow::preload_token(shadow::mk_token(TokenChannel::DEFAULT, TokenType::LPAREN, 1, 1, 0, Payload::None));
                let pre = snapshot(&$lx, &t);
                $call;
                let lx = $lx;
                let pi = check_common(&lx, &t, &pre);
                check_progress::<$k, $b, 4>(&lx, &t, &pre, pi);
                check_new_tokens_nonempty(&t, &pre, pi);
                kani::cover!(pi > pre.pi || lx.mode_stack.len() < pre.stack_len);
                kani::cover!(t.nl_upto(pi) > 0 || $c != '\n');
                std::mem::forget(lx);
            }
        }
    };
}

macro_rules! semi_text_modes { ($p:ident, $e:ident, $a:ident, $b:ident) => { [LexerMode::Default, LexerMode::ExpectSemiOrEOF, LexerMode::MacroSemiTerminatedTextExpr] }; }
macro_rules! stat_opts_modes { ($p:ident, $e:ident, $a:ident, $b:ident) => { [LexerMode::Default, LexerMode::ExpectSemiOrEOF, LexerMode::MacroStatOptionsTextExpr] }; }
macro_rules! arg_value_modes { ($p:ident, $e:ident, $a:ident, $b:ident) => { [LexerMode::Default, LexerMode::ExpectSymbol(TokenType::RPAREN, TokenChannel::DEFAULT), LexerMode::MacroCallValue { flags: $a, pnl: $p }] }; }
macro_rules! str_call_modes { ($p:ident, $e:ident, $a:ident, $b:ident) => { [LexerMode::Default, LexerMode::ExpectSymbol(TokenType::RPAREN, TokenChannel::HIDDEN), LexerMode::MacroStrQuotedExpr { mask_macro: $b, pnl: $p }] }; }

// %put / %let value text
lx_dispatch_arm_harness!(3, 16, 6, lx_semi_text_arm_nl, semi_text_modes, '\n', |t| true, |lx, p, e, a, b| lx.dispatch_macro_semi_term_text_expr('\n'));
lx_dispatch_arm_harness!(3, 16, 6, lx_semi_text_arm_percent, semi_text_modes, '%', |t| !ch_at(&t, 1).map_or(false, ref_name_start), |lx, p, e, a, b| lx.dispatch_macro_semi_term_text_expr('%'));
lx_dispatch_arm_harness!(3, 16, 6, lx_semi_text_arm_slash, semi_text_modes, '/', |t| ch_at(&t, 1) != Some('*'), |lx, p, e, a, b| lx.dispatch_macro_semi_term_text_expr('/'));
lx_dispatch_arm_harness!(3, 16, 6, lx_semi_text_arm_semi, semi_text_modes, ';', |t| true, |lx, p, e, a, b| lx.dispatch_macro_semi_term_text_expr(';'));
// statement options text
lx_dispatch_arm_harness!(3, 16, 6, lx_stat_opts_arm_percent, stat_opts_modes, '%', |t| !ch_at(&t, 1).map_or(false, ref_name_start), |lx, p, e, a, b| lx.dispatch_macro_stat_opts_text_expr('%'));
lx_dispatch_arm_harness!(3, 16, 6, lx_stat_opts_arm_assign, stat_opts_modes, '=', |t| true, |lx, p, e, a, b| lx.dispatch_macro_stat_opts_text_expr('='));
// macro call argument value
lx_dispatch_arm_harness!(3, 16, 6, lx_arg_value_arm_nl, arg_value_modes, '\n', |t| true, |lx, p, e, a, b| lx.dispatch_macro_call_arg_value('\n', a, p));
lx_dispatch_arm_harness!(3, 16, 6, lx_arg_value_arm_percent, arg_value_modes, '%', |t| !ch_at(&t, 1).map_or(false, ref_name_start) && ch_at(&t, 1) != Some('*'), |lx, p, e, a, b| lx.dispatch_macro_call_arg_value('%', a, p));
lx_dispatch_arm_harness!(3, 16, 6, lx_arg_value_arm_comma, arg_value_modes, ',', |t| true, |lx, p, e, a, b| lx.dispatch_macro_call_arg_value(',', a, p));
lx_dispatch_arm_harness!(3, 16, 6, lx_arg_value_arm_rparen, arg_value_modes, ')', |t| true, |lx, p, e, a, b| lx.dispatch_macro_call_arg_value(')', a, p));
// %str / %nrstr text
lx_dispatch_arm_harness!(3, 16, 6, lx_str_call_arm_nl, str_call_modes, '\n', |t| true, |lx, p, e, a, b| lx.dispatch_macro_str_quoted_expr('\n', b, p));
lx_dispatch_arm_harness!(3, 16, 6, lx_str_call_arm_slash, str_call_modes, '/', |t| ch_at(&t, 1) != Some('*'), |lx, p, e, a, b| lx.dispatch_macro_str_quoted_expr('/', b, p));
lx_dispatch_arm_harness!(3, 16, 6, lx_str_call_arm_rparen, str_call_modes, ')', |t| true, |lx, p, e, a, b| lx.dispatch_macro_str_quoted_expr(')', b, p));
// cheaper variants (one follower) for the quick tier
lx_dispatch_arm_harness!(2, 12, 6, lx_semi_text_arm_nl_k2, semi_text_modes, '\n', |t| true, |lx, p, e, a, b| lx.dispatch_macro_semi_term_text_expr('\n'));
lx_dispatch_arm_harness!(2, 12, 6, lx_semi_text_arm_percent_k2, semi_text_modes, '%', |t| !ch_at(&t, 1).map_or(false, ref_name_start), |lx, p, e, a, b| lx.dispatch_macro_semi_term_text_expr('%'));
lx_dispatch_arm_harness!(2, 12, 6, lx_arg_value_arm_nl_k2, arg_value_modes, '\n', |t| true, |lx, p, e, a, b| lx.dispatch_macro_call_arg_value('\n', a, p));
lx_dispatch_arm_harness!(2, 12, 6, lx_str_call_arm_nl_k2, str_call_modes, '\n', |t| true, |lx, p, e, a, b| lx.dispatch_macro_str_quoted_expr('\n', b, p));
lx_dispatch_arm_harness!(2, 12, 6, lx_stat_opts_arm_percent_k2, stat_opts_modes, '%', |t| !ch_at(&t, 1).map_or(false, ref_name_start), |lx, p, e, a, b| lx.dispatch_macro_stat_opts_text_expr('%'));

// =============================================================================================
// Macro strings / operands in arithmetic-logical expressions (C06, C13): what the scanner hands out

macro_rules! lx_eval_string_harness {
    ($k:literal, $b:literal, $uw:literal, $name:ident, $gen:expr) => {
lx_harness! {
    #[kani::unwind($uw)]
    #[kani::stub(try_parse_decimal, stub_try_parse_decimal)]
    #[kani::stub(try_parse_hex_integer, stub_try_parse_hex)]
    #[kani::stub(is_macro_stat, stub_is_macro_stat)]
    fn $name() {
        let t: Txt<$k, $b> = $gen;
        kani::assume(t.n >= 1);
        let flags = any_eval_flags();
        let pnl: u32 = kani::any();
        let toc = flags.terminate_on_comma() && (pnl == 0 || !flags.parens_mask_comma());
        let c0 = t.ch[0];
        // first chars on which the dispatcher reaches the string scanner without consuming
        kani::assume(!matches!(c0, '\'' | '"' | '/' | '&' | '%' | '*' | '(' | ')' | '|' | '¬' | '^' | '~' | '+' | '-' | '<' | '>' | '=' | '#'));
        kani::assume(!(c0 == ',' && toc) && !(c0 == ';' && flags.terminate_on_semi()));
        kani::assume(!matches!(c0, 'e' | 'n' | 'l' | 'g' | 'a' | 'o' | 'i' | 'E' | 'N' | 'L' | 'G' | 'A' | 'O' | 'I'));
        let mut lx = setup(&t, &[LexerMode::Default, LexerMode::ExpectSymbol(TokenType::RPAREN, TokenChannel::DEFAULT), LexerMode::MacroEval { macro_eval_flags: flags, pnl }]);
        let pre = snapshot(&lx, &t);
        lx.lex_macro_string_in_macro_eval_context(flags, toc);
        let pi = check_common(&lx, &t, &pre);
        check_progress::<$k, $b, 2>(&lx, &t, &pre, pi);
        let tn = shadow::tok_n();
        assert!(tn >= pre.tok_n + 1 && tn <= pre.tok_n + 2 && lx.errors.len() == pre.err_n && lx.mode_stack.len() == pre.stack_len, "C13: an operand scan yields the operand and/or its trailing blanks, nothing else");
        let last = shadow::tok(tn - 1);
        let (ls, le) = tok_range(&t, tn - 1, pi);
        let all_ws = |s: usize, e: usize| {
            let mut ok = true;
            let mut i = 0;
            while i < $k {
                if i >= s && i < e && !t.ch[i].is_whitespace() {
                    ok = false;
                }
                i += 1;
            }
            ok
        };
        if last.token_type == TokenType::WS {
            assert!(last.channel == TokenChannel::HIDDEN && le > ls && all_ws(ls, le), "C06/C13: blanks around operators are a hidden, non-empty, all-whitespace WS token");
        }
        if tn == pre.tok_n + 2 || last.token_type != TokenType::WS {
            let op = shadow::tok(pre.tok_n);
            let (s, e) = tok_range(&t, pre.tok_n, pi);
            assert!(op.channel == TokenChannel::DEFAULT && e > s && s == pre.pi, "C06: operand token is non-empty and starts where the scan started");
            assert!(matches!(op.token_type, TokenType::MacroString | TokenType::IntegerLiteral | TokenType::FloatLiteral | TokenType::FloatExponentLiteral), "C13: operand is text or a numeric literal");
            if tn == pre.tok_n + 2 {
                assert!(last.token_type == TokenType::WS && !t.ch[e - 1].is_whitespace(), "C13: the operand ends where its trailing blanks begin");
            } else if t.ch[e - 1].is_whitespace() {
                // blanks stay inside the operand text only before a sub-token that continues the operand
                assert!(matches!(ch_at(&t, e), Some('\'' | '"' | '/' | '&' | '%')), "C13: trailing blanks of an operand are hidden before an operator or delimiter");
            }
            if op.token_type != TokenType::MacroString {
                // numeric operands are standalone: only numeric-literal characters
                let mut i = 0;
                while i < $k {
                    if i >= s && i < e {
                        assert!(t.ch[i].is_ascii_hexdigit() || matches!(t.ch[i], '.' | '+' | '-' | 'x' | 'X'), "C13/C08: a numeric operand token contains a non-numeric character");
                    }
                    i += 1;
                }
            }
        }
        kani::cover!(tn == pre.tok_n + 2 && t.nl_upto(pi) > 0, "operand followed by a line feed");
        kani::cover!(tn == pre.tok_n + 1 && last.token_type == TokenType::WS);
        kani::cover!(shadow::tok(pre.tok_n).token_type == TokenType::IntegerLiteral);
        std::mem::forget(lx);
    }
}
    };
}
pub(crate) fn stub_parse_decimal_none(_s: &str, _i: bool, _f: bool) -> Option<NumericParserResult> {
    None
}
pub(crate) fn stub_parse_hex_none(_s: &str) -> Option<NumericParserResult> {
    None
}
macro_rules! lx_eval_string_lite_harness {
    ($k:literal, $b:literal, $uw:literal, $name:ident, $gen:expr) => {
lx_harness! {
    #[kani::unwind($uw)]
    #[kani::stub(try_parse_decimal, stub_parse_decimal_none)]
    #[kani::stub(try_parse_hex_integer, stub_parse_hex_none)]
    #[kani::stub(is_macro_stat, stub_is_macro_stat)]
    fn $name() {
        let t: Txt<$k, $b> = $gen;
        kani::assume(t.n >= 1);
        // flags and depth are constants here (they only select the terminators); the numeric parsers answer None
        let flags = MacroEvalExprFlags::new(MacroEvalNumericMode::Integer, MacroEvalNextArgumentMode::None, false, true, false);
        let pnl: u32 = 0;
        let toc = flags.terminate_on_comma() && (pnl == 0 || !flags.parens_mask_comma());
        let c0 = t.ch[0];
        // first chars on which the dispatcher reaches the string scanner without consuming
        kani::assume(!matches!(c0, '\'' | '"' | '/' | '&' | '%' | '*' | '(' | ')' | '|' | '¬' | '^' | '~' | '+' | '-' | '<' | '>' | '=' | '#'));
        kani::assume(!(c0 == ',' && toc) && !(c0 == ';' && flags.terminate_on_semi()));
        kani::assume(!matches!(c0, 'e' | 'n' | 'l' | 'g' | 'a' | 'o' | 'i' | 'E' | 'N' | 'L' | 'G' | 'A' | 'O' | 'I'));
        let mut lx = setup(&t, &[LexerMode::Default, LexerMode::ExpectSymbol(TokenType::RPAREN, TokenChannel::DEFAULT), LexerMode::MacroEval { macro_eval_flags: flags, pnl }]);
        let pre = snapshot(&lx, &t);
        lx.lex_macro_string_in_macro_eval_context(flags, toc);
        let pi = check_common(&lx, &t, &pre);
        check_progress::<$k, $b, 2>(&lx, &t, &pre, pi);
        let tn = shadow::tok_n();
        assert!(tn >= pre.tok_n + 1 && tn <= pre.tok_n + 2 && lx.errors.len() == pre.err_n && lx.mode_stack.len() == pre.stack_len, "C13: an operand scan yields the operand and/or its trailing blanks, nothing else");
        let last = shadow::tok(tn - 1);
        let (ls, le) = tok_range(&t, tn - 1, pi);
        let all_ws = |s: usize, e: usize| {
            let mut ok = true;
            let mut i = 0;
            while i < $k {
                if i >= s && i < e && !t.ch[i].is_whitespace() {
                    ok = false;
                }
                i += 1;
            }
            ok
        };
        if last.token_type == TokenType::WS {
            assert!(last.channel == TokenChannel::HIDDEN && le > ls && all_ws(ls, le), "C06/C13: blanks around operators are a hidden, non-empty, all-whitespace WS token");
        }
        if tn == pre.tok_n + 2 || last.token_type != TokenType::WS {
            let op = shadow::tok(pre.tok_n);
            let (s, e) = tok_range(&t, pre.tok_n, pi);
            assert!(op.channel == TokenChannel::DEFAULT && e > s && s == pre.pi, "C06: operand token is non-empty and starts where the scan started");
            assert!(matches!(op.token_type, TokenType::MacroString | TokenType::IntegerLiteral | TokenType::FloatLiteral | TokenType::FloatExponentLiteral), "C13: operand is text or a numeric literal");
            if tn == pre.tok_n + 2 {
                assert!(last.token_type == TokenType::WS && !t.ch[e - 1].is_whitespace(), "C13: the operand ends where its trailing blanks begin");
            } else if t.ch[e - 1].is_whitespace() {
                // blanks stay inside the operand text only before a sub-token that continues the operand
                assert!(matches!(ch_at(&t, e), Some('\'' | '"' | '/' | '&' | '%')), "C13: trailing blanks of an operand are hidden before an operator or delimiter");
            }
            if op.token_type != TokenType::MacroString {
                // numeric operands are standalone: only numeric-literal characters
                let mut i = 0;
                while i < $k {
                    if i >= s && i < e {
                        assert!(t.ch[i].is_ascii_hexdigit() || matches!(t.ch[i], '.' | '+' | '-' | 'x' | 'X'), "C13/C08: a numeric operand token contains a non-numeric character");
                    }
                    i += 1;
                }
            }
        }
        kani::cover!(tn == pre.tok_n + 2 && t.nl_upto(pi) > 0, "operand followed by a line feed");
        kani::cover!(tn == pre.tok_n + 1 && last.token_type == TokenType::WS);
        
        std::mem::forget(lx);
    }
}
    };
}
lx_eval_string_lite_harness!(2, 8, 5, lx_eval_string_lite_n2, Txt::ascii_exact());
lx_eval_string_lite_harness!(3, 8, 5, lx_eval_string_lite_n3, Txt::ascii_exact());
lx_eval_string_lite_harness!(4, 8, 6, lx_eval_string_lite_n4, Txt::ascii_exact());
lx_eval_string_harness!(3, 16, 5, lx_eval_string_k3, Txt::any(PFX, &[]));
lx_eval_string_harness!(2, 12, 5, lx_eval_string_k2, Txt::any(PFX, &[]));
// exactly n ASCII characters at constant byte positions (cheap enough for the quick tier)
lx_eval_string_harness!(2, 8, 5, lx_eval_string_ascii_n2, Txt::ascii_exact());
lx_eval_string_harness!(3, 8, 5, lx_eval_string_ascii_n3, Txt::ascii_exact());

/// is_macro_stat hashes the identifier (phf/SipHash): arbitrary answer.
pub(crate) fn stub_is_macro_stat(_input: &str) -> bool {
    kani::any()
}

// =============================================================================================
// Open code: statement-pending flag after a symbol / unknown character (C11), '*' comment prediction

impl<'src> Lexer<'src> {
    pub(crate) fn dead_ident(&mut self) {
        kani::assume(false);
    }
}

lx_harness! {
    #[kani::unwind(5)]
    #[kani::stub(Lexer::lex_numeric_literal, Lexer::stub_dead1)]
    #[kani::stub(Lexer::lex_char_format, Lexer::stub_dead_bool)]
    #[kani::stub(Lexer::lex_identifier, Lexer::dead_ident)]
    #[kani::stub(Lexer::lex_macro_identifier, Lexer::stub_dead1)]
    #[kani::stub(Lexer::lex_macro_comment, Lexer::dead_ident)]
    #[kani::stub(Lexer::lex_macro_var_expr, Lexer::stub_dead_bool)]
    #[kani::stub(Lexer::lex_single_quoted_str, Lexer::dead_ident)]
    #[kani::stub(Lexer::lex_cstyle_comment, Lexer::dead_ident)]
    #[kani::stub(Lexer::lex_ws, Lexer::dead_ident)]
    fn lx_default_star() {
        // '*' at the start of the remaining text: a comment statement iff no statement is pending
        let t = Txt::<3, 16>::any(PFX, &['*']);
        let mut lx = setup(&t, &[LexerMode::Default]);
        let nest: bool = kani::any();
        lx.macro_nesting_level = nest as u32;
        let pend: bool = kani::any();
        lx.set_pending_stat(pend);
        let pre = snapshot(&lx, &t);
        lx.dispatch_mode_default('*');
        let pi = check_common(&lx, &t, &pre);
        check_progress::<3, 16, 2>(&lx, &t, &pre, pi);
        // reference
        let mut semi = 4usize;
        let mut macro_hit = false;
        let mut i = 1;
        while i < 3 {
            if semi > 3 && !macro_hit && i < t.n {
                if t.ch[i] == ';' {
                    semi = i;
                } else if nest && t.ch[i] == '%' && ch_at(&t, i + 1).map_or(false, ref_name_start) {
                    macro_hit = true;
                }
            }
            i += 1;
        }
        let comment = !pend && !macro_hit;
        assert!(shadow::tok_n() == pre.tok_n + 1, "C11: one token");
        let tk = shadow::tok(pre.tok_n);
        if comment {
            let end = if semi <= 3 { semi + 1 } else { t.n };
            assert!(tk.token_type == TokenType::PredictedCommentStat && tk.channel == TokenChannel::COMMENT && pi == end, "C11/C06: a '*' that starts a statement begins a comment running to the next ';'");
            assert!(lx.pending_stat() == pend, "C11: a comment statement does not start a statement");
        } else {
            let two = ch_at(&t, 1) == Some('*');
            assert!(tk.token_type == if two { TokenType::STAR2 } else { TokenType::STAR } && tk.channel == TokenChannel::DEFAULT && pi == 1 + two as usize, "C11: '*' inside a statement is the multiplication / power operator");
            assert!(lx.pending_stat(), "C11: an operator token leaves the statement pending");
        }
        assert!(lx.checkpoint.is_none() && lx.errors.len() == pre.err_n && lx.mode_stack.len() == pre.stack_len, "C01: comment prediction releases its checkpoint");
        kani::cover!(comment && nest && t.nl_upto(pi) > 0);
        kani::cover!(!comment && macro_hit, "rollback at a macro trigger");
        kani::cover!(!comment && pend && pi == 2);
        std::mem::forget(lx);
    }
}

lx_harness! {
    #[kani::unwind(5)]
    #[kani::stub(Lexer::lex_numeric_literal, Lexer::stub_dead1)]
    #[kani::stub(Lexer::lex_char_format, Lexer::stub_dead_bool)]
    #[kani::stub(Lexer::lex_identifier, Lexer::dead_ident)]
    #[kani::stub(Lexer::lex_macro_identifier, Lexer::stub_dead1)]
    #[kani::stub(Lexer::lex_macro_comment, Lexer::dead_ident)]
    #[kani::stub(Lexer::lex_macro_var_expr, Lexer::stub_dead_bool)]
    #[kani::stub(Lexer::lex_single_quoted_str, Lexer::dead_ident)]
    #[kani::stub(Lexer::lex_cstyle_comment, Lexer::dead_ident)]
    #[kani::stub(Lexer::lex_ws, Lexer::dead_ident)]
    #[kani::stub(Lexer::lex_predicted_comment, Lexer::stub_dead_bool)]
    fn lx_default_symbol() {
        // any character of the "symbol or unknown" class (not '*', '.', '$': own harnesses)
        let t = Txt::<2, 12>::any(PFX, &[]);
        kani::assume(t.n >= 1);
        let c = t.ch[0];
        kani::assume(!c.is_whitespace() && !matches!(c, '\'' | '"' | ';' | '/' | '&' | '%' | '0'..='9' | '*' | '.' | '$') && !ref_name_start(c));
        let mut lx = setup(&t, &[LexerMode::Default]);
        lx.set_pending_stat(false);
        let pre = snapshot(&lx, &t);
        lx.dispatch_mode_default(c);
        let pi = check_common(&lx, &t, &pre);
        check_progress::<2, 12, 2>(&lx, &t, &pre, pi);
        assert!(shadow::tok_n() == pre.tok_n + 1 && pi >= pre.pi + 1 && pi <= pre.pi + 2, "C11/C06: a symbol is one token of one or two characters");
        let tk = shadow::tok(pre.tok_n);
        let known = matches!(c, '(' | ')' | '{' | '}' | '[' | ']' | '!' | '¦' | '|' | '¬' | '^' | '~' | '∘' | '+' | '-' | '<' | '>' | ',' | ':' | '=' | '@' | '#' | '?');
        if known {
            assert!(tk.channel == TokenChannel::DEFAULT && tk.token_type != TokenType::CatchAll, "C11/C06: operator symbols are default-channel tokens");
        } else {
            assert!(tk.channel == TokenChannel::HIDDEN && tk.token_type == TokenType::CatchAll && pi == pre.pi + 1, "C11/C06: any other character is a hidden one-character CatchAll");
        }
        assert!(lx.pending_stat(), "C11: every token other than a comment statement marks the statement as started");
        kani::cover!(!known && c.len_utf8() == 4);
        kani::cover!(known && pi == pre.pi + 2);
        std::mem::forget(lx);
    }
}

// =============================================================================================
// Datalines (C06, C10, C11): keyword at statement start + blanks + ';' => start, data, terminator

pub(crate) fn stub_parse_keyword_none(_ident: &str) -> Option<TokenType> {
    None
}

macro_rules! lx_datalines_harness {
    ($k:literal, $b:literal, $uw:literal, $name:ident, $four:literal, $fixed:expr) => {
        lx_harness! {
            #[kani::unwind($uw)]
            #[kani::stub(parse_keyword, stub_parse_keyword_none)]
            fn $name() {
                let fx: &[char] = $fixed;
                let t = Txt::<$k, $b>::any(PFX, fx);
                let kwl = fx.len();
                // the identifier ends after the keyword
                kani::assume(t.n == kwl || !(t.ch[kwl].is_ascii_alphanumeric() || t.ch[kwl] == '_' || (!t.ch[kwl].is_ascii() && det_xid_continue(t.ch[kwl]))));
                let mut lx = setup(&t, &[LexerMode::Default]);
                let prev_semi: bool = kani::any();
                shadow::preload_token(shadow::mk_token(TokenChannel::DEFAULT, if prev_semi { TokenType::SEMI } else { TokenType::Identifier }, 1, 1, 0, Payload::None));
                let pre = snapshot(&lx, &t);
                lx.lex_identifier();
                let pi = check_common(&lx, &t, &pre);
                check_progress::<$k, $b, 2>(&lx, &t, &pre, pi);
                // reference: blanks then ';' after the keyword, at statement start
                let mut j = kwl;
                let mut i = 0;
                while i < $k {
                    if i >= kwl && i == j && i < t.n && t.ch[i].is_whitespace() {
                        j += 1;
                    }
                    i += 1;
                }
                let is_dl = prev_semi && j < t.n && t.ch[j] == ';';
                if !is_dl {
                    assert!(pi == kwl && shadow::tok_n() == pre.tok_n + 1 && shadow::tok(pre.tok_n).token_type == TokenType::Identifier, "C11: without ';' or not at statement start the keyword is an ordinary identifier");
                } else {
                    assert!(shadow::tok_n() == pre.tok_n + 3, "C10: a datalines start is followed by its data token and its terminator");
                    let (a, b, c) = (shadow::tok(pre.tok_n), shadow::tok(pre.tok_n + 1), shadow::tok(pre.tok_n + 2));
                    assert!(a.token_type == TokenType::DatalinesStart && b.token_type == TokenType::DatalinesData && c.token_type == TokenType::SEMI, "C10: start, data, terminator");
                    assert!(t.idx_of(b.byte_offset.get() as usize) == Some(j + 1), "C06/C11: the start token ends with the statement's ';'");
                    // data runs to the first terminator (';' or ';;;;') or to the end of input
                    let mut end = t.n;
                    let mut found = false;
                    let mut i = 0;
                    while i < $k {
                        if i > j && !found && i < t.n && t.ch[i] == ';' {
                            if !$four || (i + 3 < t.n && t.ch[i + 1] == ';' && t.ch[i + 2] == ';' && t.ch[i + 3] == ';') {
                                end = i;
                                found = true;
                            }
                        }
                        i += 1;
                    }
                    assert!(t.idx_of(c.byte_offset.get() as usize) == Some(end), "C06/C11: the data token ends at the terminator");
                    let tl = if found { if $four { 4 } else { 1 } } else { 0 };
                    assert!(pi == end + tl, "C06: the terminator token consists of the terminator characters only");
                    assert!((lx.errors.len() == pre.err_n + 1) == !found, "C09: an unterminated block is reported once");
                }
                kani::cover!(is_dl && j > kwl);
                kani::cover!(!is_dl && prev_semi);
                std::mem::forget(lx);
            }
        }
    };
}
lx_datalines_harness!(7, 32, 9, lx_datalines_cards, false, &['c', 'A', 'r', 'd', 's']);
lx_datalines_harness!(6, 28, 8, lx_datalines_cards_k6, false, &['c', 'A', 'r', 'd', 's']);

// =============================================================================================
// String expression text (C07): the dispatcher-consumed '%' belongs to the token text and payload

lx_harness! {
    #[kani::unwind(6)]
    #[kani::stub(Lexer::lex_macro_identifier, Lexer::stub_dead1)]
    fn lx_str_expr_percent_k4() {
        let t = Txt::<4, 20>::any(PFX, &['%']);
        kani::assume(!ch_at(&t, 1).map_or(false, ref_name_start));
        let allow: bool = kani::any();
        let mut lx = setup(&t, &[LexerMode::Default, LexerMode::StringExpr { allow_stat: allow }]);
        shadow::preload_token(shadow::mk_token(TokenChannel::DEFAULT, TokenType::MacroVarTerm, 1, 1, 0, Payload::None));
        shadow::preload_literal_bytes(1);
        let pre = snapshot(&lx, &t);
        lx.dispatch_mode_str_expr('%', allow);
        let pi = check_common(&lx, &t, &pre);
        check_progress::<4, 20, 2>(&lx, &t, &pre, pi);
        // reference: text up to the closing quote / macro trigger / end of input, "" collapses
        let mut kept = [true; 4];
        let mut stop = t.n;
        let mut done = false;
        let mut skip = 0usize;
        let mut i = 1;
        while i < 4 {
            if !done && i < t.n {
                if skip > 0 {
                    skip -= 1;
                } else {
                    let c = t.ch[i];
                    if c == '"' {
                        if ch_at(&t, i + 1) == Some('"') {
                            kept[i + 1] = false;
                            skip = 1;
                        } else {
                            stop = i;
                            done = true;
                        }
                    } else if c == '&' {
                        let (m, cnt) = ref_macro_amp(&t, i);
                        if m {
                            stop = i;
                            done = true;
                        } else {
                            skip = cnt - 1;
                        }
                    } else if c == '%' && ref_macro_percent(&t, i) {
                        stop = i;
                        done = true;
                    }
                }
            }
            i += 1;
        }
        assert!(pi == stop && shadow::tok_n() == pre.tok_n + 1, "C06: string-expression text runs to the closing quote or the next macro trigger");
        let tk = shadow::tok(pre.tok_n);
        assert!(tk.byte_offset.get() as usize == t.byte_at(pre.pi), "C02: the text token starts at the '%' the dispatcher consumed");
        if stop == t.n && !done {
            assert!(tk.token_type == TokenType::StringExprEnd && lx.errors.len() == pre.err_n + 1 && lx.mode_stack.len() == pre.stack_len - 1, "C10: unterminated string expression closed and reported");
        } else {
            assert!(tk.token_type == TokenType::StringExprText && lx.errors.len() == pre.err_n && lx.mode_stack.len() == pre.stack_len, "C06: text token inside the string expression");
        }
        check_payload::<4, 20, 5>(&t, pre.pi, stop, &kept, tk.payload, pre.lit_n);
        kani::cover!(matches!(tk.payload, Payload::StringLiteral(..)) && done);
        kani::cover!(matches!(tk.payload, Payload::StringLiteral(..)) && !done);
        std::mem::forget(lx);
    }
}
include!(concat!(env!("SAS_LEXER_VERIF_DIR"), "/harness/lexer2.rs"));
