// harnesses for lexer
