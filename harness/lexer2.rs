// Lexer-level harnesses, second file (included at the end of lexer.rs; same conventions).
// Macro arithmetic/logical expressions (C13 operators), macro call argument name/value
// disambiguation (C13 '=' and ',' delimiters, C01/C09 checkpoint discipline), macro definition
// argument lists, string expressions (C06/C07/C10), identifiers and keywords (C16).

// =============================================================================================
// dispatch_mode_macro_eval + lex_macro_eval_operator: every operator (symbol or mnemonic, any letter
// case) at a token start becomes its operator token; parentheses adjust the depth carried in the mode
// and never end the expression at depth > 0; ',' and ';' end it only when the flags say so.

impl<'src> Lexer<'src> {
    pub(crate) fn dead_macro_call(&mut self, _a: bool, _b: bool) -> MacroKwType {
        kani::assume(false);
        MacroKwType::None
    }
    /// contract stand-in for lex_macro_string_in_macro_eval_context in harnesses about the dispatcher:
    /// consumes one character if there is one and emits the operand text token (the real scanner has
    /// its own harness, lx_eval_string_k3)
    pub(crate) fn stub_eval_string(&mut self, _f: MacroEvalExprFlags, _toc: bool) {
        if let Some('\n') = self.cursor.advance() {
            self.add_line();
        }
        self.emit_token(TokenChannel::DEFAULT, TokenType::MacroString, Payload::None);
    }
}

/// reference: operator at char index i of an arithmetic/logical macro expression: (type, chars)
pub(crate) fn ref_eval_op<const K: usize, const B: usize>(t: &Txt<K, B>, i: usize) -> Option<(TokenType, usize)> {
    let c = t.ch[i];
    let nx = ch_at(t, i + 1);
    let nonid = |o: Option<char>| !o.map_or(false, det_xid_continue);
    let up = |o: Option<char>| o.map_or('\0', |c| c.to_ascii_uppercase());
    match c {
        '*' => Some(if nx == Some('*') { (TokenType::STAR2, 2) } else { (TokenType::STAR, 1) }),
        '(' => Some((TokenType::LPAREN, 1)),
        ')' => Some((TokenType::RPAREN, 1)),
        '|' => Some((TokenType::PIPE, 1)),
        '¬' | '^' | '~' => Some(if nx == Some('=') { (TokenType::NE, 2) } else { (TokenType::NOT, 1) }),
        '+' => Some((TokenType::PLUS, 1)),
        '-' => Some((TokenType::MINUS, 1)),
        '<' => Some(if nx == Some('=') { (TokenType::LE, 2) } else { (TokenType::LT, 1) }),
        '>' => Some(if nx == Some('=') { (TokenType::GE, 2) } else { (TokenType::GT, 1) }),
        '=' => Some((TokenType::ASSIGN, 1)),
        '#' => Some((TokenType::HASH, 1)),
        _ => {
            let a = c.to_ascii_uppercase();
            let b = up(nx);
            let d = up(ch_at(t, i + 2));
            if nx.is_none() {
                return None;
            }
            let two = match (a, b) {
                ('E', 'Q') => Some(TokenType::KwEQ),
                ('I', 'N') => Some(TokenType::KwIN),
                ('O', 'R') => Some(TokenType::KwOR),
                ('L', 'T') => Some(TokenType::KwLT),
                ('L', 'E') => Some(TokenType::KwLE),
                ('G', 'T') => Some(TokenType::KwGT),
                ('G', 'E') => Some(TokenType::KwGE),
                ('N', 'E') => Some(TokenType::KwNE),
                _ => None,
            };
            if let Some(tt) = two {
                if nonid(ch_at(t, i + 2)) {
                    return Some((tt, 2));
                }
            }
            if a == 'A' && b == 'N' && d == 'D' && nonid(ch_at(t, i + 3)) {
                return Some((TokenType::KwAND, 3));
            }
            if a == 'N' && b == 'O' && d == 'T' && nonid(ch_at(t, i + 3)) {
                return Some((TokenType::KwNOT, 3));
            }
            None
        }
    }
}

pub(crate) fn ref_comparison_op(tt: TokenType) -> bool {
    matches!(
        tt,
        TokenType::LT | TokenType::KwLT | TokenType::LE | TokenType::KwLE | TokenType::ASSIGN | TokenType::KwEQ | TokenType::HASH | TokenType::KwIN | TokenType::NE | TokenType::KwNE | TokenType::GT | TokenType::KwGT | TokenType::GE | TokenType::KwGE
    )
}

/// reference: an operand position left empty is filled by a zero-width MacroStringEmpty token: before a
/// comparison operator or at the end of a (sub)expression, when what precedes is a comparison operator
/// or the start of a (sub)expression.
pub(crate) fn ref_empty_operand(prev: TokenType, next: Option<TokenType>) -> bool {
    let at_end = match next {
        None => true,
        Some(x) => matches!(x, TokenType::RPAREN | TokenType::KwAND | TokenType::KwOR),
    };
    let before_cmp = next.map_or(false, ref_comparison_op);
    let after_start = ref_comparison_op(prev) || matches!(prev, TokenType::LPAREN | TokenType::KwmIf | TokenType::KwmTo | TokenType::KwmBy | TokenType::COMMA | TokenType::KwAND | TokenType::KwOR);
    (at_end || before_cmp) && after_start
}

macro_rules! lx_eval_dispatch_harness {
    ($k:literal, $b:literal, $uw:literal, $name:ident, $fixed:expr, |$t:ident| $asm:expr) => {
        lx_harness! {
            #[kani::unwind($uw)]
            #[kani::stub(Lexer::lex_single_quoted_str, Lexer::dead_ident)]
            #[kani::stub(Lexer::lex_string_expression_start, Lexer::stub_dead1)]
            #[kani::stub(Lexer::lex_cstyle_comment, Lexer::dead_ident)]
            #[kani::stub(Lexer::lex_macro_var_expr, Lexer::stub_dead_bool)]
            #[kani::stub(Lexer::lex_macro_call, Lexer::dead_macro_call)]
            #[kani::stub(Lexer::lex_macro_string_in_macro_eval_context, Lexer::stub_eval_string)]
            fn $name() {
                let $t = Txt::<$k, $b>::any(PFX, $fixed);
                kani::assume($t.n >= 1);
                kani::assume($asm);
                let t = $t;
                let c = t.ch[0];
                kani::assume(!matches!(c, '\'' | '"' | '/' | '&' | '%'));
                let flags = any_eval_flags();
                let pnl: u32 = kani::any();
                kani::assume(pnl < u32::MAX - 8);
                let toc = flags.terminate_on_comma() && (pnl == 0 || !flags.parens_mask_comma());
                let mut lx = setup(&t, &[LexerMode::Default, LexerMode::ExpectSymbol(TokenType::RPAREN, TokenChannel::DEFAULT), LexerMode::MacroEval { macro_eval_flags: flags, pnl }]);
                // look-behind: the previous default-channel token (any type), then possibly a hidden one
                let prev_tt = any_token_type();
                shadow::preload_token(shadow::mk_token(TokenChannel::DEFAULT, prev_tt, 1, 1, 0, Payload::None));
                if kani::any() {
                    shadow::preload_token(shadow::mk_token(TokenChannel::HIDDEN, TokenType::WS, 2, 1, 0, Payload::None));
                }
                let pre = snapshot(&lx, &t);
                lx.dispatch_mode_macro_eval(c, flags, pnl);
                let pi = check_common(&lx, &t, &pre);
                check_progress::<$k, $b, 4>(&lx, &t, &pre, pi);
                assert!(lx.errors.len() == pre.err_n && lx.checkpoint.is_none(), "C01: operators and delimiters of an expression report nothing");
                let tn = shadow::tok_n();
                let ends = (c == ')' && pnl == 0) || (c == ',' && toc) || (c == ';' && flags.terminate_on_semi());
                let op = if ends { None } else { ref_eval_op(&t, 0) };
                let next_tt = op.map(|x| x.0);
                if ends || op.is_some() {
                    // optional empty operand, zero-width, at the position of the operator / terminator
                    let e = ref_empty_operand(prev_tt, next_tt) as usize;
                    if e == 1 {
                        assert!(tn >= pre.tok_n + 1, "C13/C06: an empty operand position is marked by an empty macro string token");
                        let et = shadow::tok(pre.tok_n);
                        assert!(et.token_type == TokenType::MacroStringEmpty && et.channel == TokenChannel::DEFAULT && et.byte_offset.get() as usize == t.byte_at(pre.pi), "C06: the empty operand token is zero-width at the operator");
                    }
                    if let Some((tt, len)) = op {
                        assert!(tn == pre.tok_n + e + 1, "C13: an operator yields exactly its operator token");
                        let ot = shadow::tok(pre.tok_n + e);
                        assert!(ot.token_type == tt && ot.channel == TokenChannel::DEFAULT && matches!(ot.payload, Payload::None), "C13/C16: operator (symbol or mnemonic, any letter case) is an operator token of its type");
                        assert!(ot.byte_offset.get() as usize == t.byte_at(pre.pi) && pi == pre.pi + len, "C13/C06: the operator token spans exactly the operator");
                        assert!(lx.mode_stack.len() == pre.stack_len + 1 && lx.mode_stack[pre.stack_len] == LexerMode::WsOrCStyleCommentOnly, "C13: blanks after an operator are insignificant");
                        let depth = if tt == TokenType::LPAREN { pnl + 1 } else if tt == TokenType::RPAREN { pnl - 1 } else { pnl };
                        assert!(lx.mode_stack[pre.stack_len - 1] == LexerMode::MacroEval { macro_eval_flags: flags, pnl: depth }, "C13: nested parentheses are operator tokens that adjust the depth and do not end the argument");
                    } else if c == ',' {
                        assert!(tn == pre.tok_n + e + 1 && pi == pre.pi + 1, "C13: a top-level comma is a delimiter token");
                        let ct = shadow::tok(pre.tok_n + e);
                        assert!(ct.token_type == TokenType::COMMA && ct.channel == TokenChannel::DEFAULT && ct.byte_offset.get() as usize == t.byte_at(pre.pi), "C13: COMMA token at the comma");
                        // the next argument's mode replaces the expression, blanks before it are insignificant
                        let n = lx.mode_stack.len();
                        assert!(lx.mode_stack[n - 1] == LexerMode::WsOrCStyleCommentOnly, "C13: blanks after the comma are insignificant");
                        match flags.follow_arg_mode() {
                            MacroEvalNextArgumentMode::None => assert!(n == pre.stack_len, "C13: no further argument"),
                            MacroEvalNextArgumentMode::SingleEvalExpr => assert!(n == pre.stack_len + 1 && lx.mode_stack[n - 2] == LexerMode::MacroEval { macro_eval_flags: MacroEvalExprFlags::new(flags.numeric_mode(), MacroEvalNextArgumentMode::None, false, false, false), pnl: 0 }, "C13: one more expression argument"),
                            MacroEvalNextArgumentMode::EvalExpr => assert!(n == pre.stack_len + 1 && lx.mode_stack[n - 2] == LexerMode::MacroEval { macro_eval_flags: MacroEvalExprFlags::new(flags.numeric_mode(), MacroEvalNextArgumentMode::EvalExpr, false, false, flags.parens_mask_comma()), pnl: 0 }, "C13: further expression arguments"),
                            MacroEvalNextArgumentMode::MacroArg => assert!(n == pre.stack_len + 1 && lx.mode_stack[n - 2] == LexerMode::MacroCallValue { flags: MacroArgNameValueFlags::new(MacroArgContext::BuiltInMacro, true, true), pnl: 0 }, "C13: further text arguments"),
                        }
                    } else {
                        assert!(tn == pre.tok_n + e && pi == pre.pi && lx.mode_stack.len() == pre.stack_len - 1, "C13: the closing ')' at depth 0 / ';' ends the expression and is left to the mode below");
                    }
                } else {
                    // anything else is operand text (a comma or semicolon that does not terminate included)
                    assert!(tn == pre.tok_n + 1 && shadow::tok(pre.tok_n).token_type == TokenType::MacroString && pi > pre.pi && lx.mode_stack.len() == pre.stack_len, "C13: a masked comma / non-operator character is operand text");
                }
                kani::cover!(op.map_or(false, |x| x.1 == 3), "three-letter mnemonic");
                kani::cover!(op.map_or(false, |x| x.0 == TokenType::RPAREN) && pnl > 5, "nested closing parenthesis");
                kani::cover!(c == ',' && !ends && pnl > 0 && flags.terminate_on_comma(), "comma masked by parentheses");
                kani::cover!(c == ',' && ends && matches!(flags.follow_arg_mode(), MacroEvalNextArgumentMode::MacroArg));
                kani::cover!(ends && tn == pre.tok_n + 1, "empty operand before the terminator");
                kani::cover!(op.is_none() && !ends && matches!(c, 'n' | 'N'), "mnemonic start letter that is not a mnemonic");
                std::mem::forget(lx);
            }
        }
    };
}
lx_eval_dispatch_harness!(4, 20, 7, lx_eval_dispatch_ops, &[], |t| true);

// '%' followed by a quotable operator character (%^ %~ %=): the operator token includes the '%'
lx_harness! {
    #[kani::unwind(7)]
    #[kani::stub(Lexer::dispatch_macro_call_or_stat, Lexer::dead_kw)]
    #[kani::stub(Lexer::lex_macro_string_in_macro_eval_context, Lexer::stub_eval_string)]
    fn lx_eval_percent_op() {
        let t = Txt::<3, 16>::any(PFX, &['%']);
        kani::assume(!ch_at(&t, 1).map_or(false, ref_name_start));
        let flags = any_eval_flags();
        let pnl: u32 = kani::any();
        let mut lx = setup(&t, &[LexerMode::Default, LexerMode::ExpectSymbol(TokenType::RPAREN, TokenChannel::DEFAULT), LexerMode::MacroEval { macro_eval_flags: flags, pnl }]);
        // look-behind: an operand, or something after which an empty operand is due before a comparison operator
        let prev_tt = match kani::any::<u8>() % 3 {
            0 => TokenType::IntegerLiteral,
            1 => TokenType::LPAREN,
            _ => TokenType::KwAND,
        };
        shadow::preload_token(shadow::mk_token(TokenChannel::DEFAULT, prev_tt, 1, 1, 0, Payload::None));
        let pre = snapshot(&lx, &t);
        lx.dispatch_mode_macro_eval('%', flags, pnl);
        let pi = check_common(&lx, &t, &pre);
        check_progress::<3, 16, 3>(&lx, &t, &pre, pi);
        let quoted = matches!(ch_at(&t, 1), Some('~' | '^' | '='));
        // an empty operand position before the %-quoted operator is marked, zero-width, where the operator token starts
        let e = (quoted && ref_empty_operand(prev_tt, ref_eval_op(&t, 1).map(|x| x.0))) as usize;
        if e == 1 {
            let et = shadow::tok(pre.tok_n);
            assert!(shadow::tok_n() == pre.tok_n + 2 && et.token_type == TokenType::MacroStringEmpty && et.byte_offset.get() as usize == t.byte_at(pre.pi), "C13/C06/C02: the empty operand token is zero-width at the start of the %-quoted operator");
        }
        let tk = shadow::tok(pre.tok_n + e);
        assert!(shadow::tok_n() == pre.tok_n + 1 + e && tk.byte_offset.get() as usize == t.byte_at(pre.pi) && tk.channel == TokenChannel::DEFAULT, "C06/C02: one token starting at the percent sign");
        if quoted {
            let (tt, len) = ref_eval_op(&t, 1).unwrap();
            assert!(tk.token_type == tt && pi == pre.pi + 1 + len, "C13/C06: a %-prefixed operator is its operator token, the prefix included");
            assert!(lx.mode_stack.len() == pre.stack_len + 1, "C13: blanks after an operator are insignificant");
        } else {
            assert!(tk.token_type == TokenType::MacroString && pi > pre.pi && lx.mode_stack.len() == pre.stack_len, "C13: a lone percent sign is operand text");
        }
        assert!(lx.errors.len() == pre.err_n);
        kani::cover!(quoted && pi == 3);
        kani::cover!(e == 1, "empty operand before a %-quoted operator");
        kani::cover!(!quoted && t.n == 1);
        std::mem::forget(lx);
    }
}

// =============================================================================================
// Macro call arguments: is the text before '=' an argument name? (C13: the '=' of a named argument and
// the top-level ',' are delimiter tokens; C01/C09: the single checkpoint is released on every path)

pub(crate) fn arg_modes(flags: MacroArgNameValueFlags) -> [LexerMode; 3] {
    [LexerMode::Default, LexerMode::ExpectSymbol(TokenType::RPAREN, TokenChannel::DEFAULT), LexerMode::MacroCallArgOrValue { flags }]
}

/// What one step of dispatch_macro_call_arg_or_value must do on the constant next char `c`.
/// `named`: a name-shaped text token was lexed just before (its checkpoint is live, taken at char index
/// `cp_pi` with `cp_tok` tokens in the buffer).
pub(crate) fn check_arg_or_value_step<const K: usize, const B: usize>(lx: &Lexer, t: &Txt<K, B>, pre: &Pre, pi: usize, c: char, flags: MacroArgNameValueFlags, named: bool, cp_pi: usize, cp_tok: usize) {
    let tn = shadow::tok_n();
    let nx = ch_at(t, pre.pi + 1);
    let n = lx.mode_stack.len();
    let check_assign = c.is_whitespace() || (c == '/' && nx == Some('*'));
    let comma = c == ',' && flags.terminate_on_comma();
    let name_char = ref_name_start(c) || (named && det_xid_continue(c));
    assert!(lx.errors.len() == pre.err_n, "C09: argument name detection reports nothing");
    if c == '%' && nx == Some('*') {
        // a macro comment ends a possible argument name: the name can no longer be extended or rolled back to
        assert!(lx.checkpoint.is_none(), "C01: a macro comment releases the argument-name checkpoint");
        assert!(tn == pre.tok_n + 1 && shadow::tok(pre.tok_n).token_type == TokenType::MacroComment && shadow::tok(pre.tok_n).channel == TokenChannel::COMMENT && pi >= pre.pi + 2 && n == pre.stack_len, "C06/C13: a macro comment inside an argument is a comment token; the argument goes on");
    } else if comma {
        assert!(lx.checkpoint.is_none(), "C01: a delimiter releases the argument-name checkpoint");
        if flags.populate_next_arg_stack() {
            assert!(pi == pre.pi + 1 && tn == pre.tok_n + 1, "C13: a top-level comma is a delimiter token");
            let ct = shadow::tok(pre.tok_n);
            assert!(ct.token_type == TokenType::COMMA && ct.channel == TokenChannel::DEFAULT && ct.byte_offset.get() as usize == t.byte_at(pre.pi), "C13: COMMA token at the comma");
            assert!(n == pre.stack_len + 1 && lx.mode_stack[n - 1] == LexerMode::WsOrCStyleCommentOnly, "C13: blanks after the comma are insignificant");
            let nm = &lx.mode_stack[n - 2];
            let ok = match flags.context() {
                MacroArgContext::MacroCall => *nm == LexerMode::MacroCallArgOrValue { flags },
                MacroArgContext::BuiltInMacro => *nm == LexerMode::MacroCallValue { flags, pnl: 0 },
                MacroArgContext::MacroDef => *nm == LexerMode::MacroDefArg,
            };
            assert!(ok, "C13: mode of the next argument follows the call context");
        } else {
            assert!(pi == pre.pi && tn == pre.tok_n && n == pre.stack_len - 1, "C13: the comma is left to the expectation below");
        }
    } else if c == ')' {
        assert!(lx.checkpoint.is_none() && pi == pre.pi && tn == pre.tok_n && n == pre.stack_len - 1, "C13/C01: the call's closing ')' ends the argument list, releases the checkpoint and is left to the expectation below");
    } else if check_assign {
        assert!(lx.checkpoint.is_some() && pi == pre.pi && tn == pre.tok_n, "C13: blanks/comments after a possible argument name are looked through for '='");
        assert!(n == pre.stack_len + 2 && lx.mode_stack[n - 2] == LexerMode::MaybeMacroCallArgAssign { flags } && lx.mode_stack[n - 1] == LexerMode::WsOrCStyleCommentOnly, "C13: '=' is looked for after the blanks");
        let cp = lx.checkpoint.as_ref().unwrap();
        let at = if named { cp_pi } else { pre.pi };
        assert!(cp.cursor.remaining_len() as usize == t.len - t.byte_at(at) && cp.mode_stack_len == pre.stack_len, "C01/C02: the checkpoint is where the possible name started");
    } else if c == '=' && named {
        assert!(lx.checkpoint.is_none() && pi == pre.pi + 1 && tn == pre.tok_n + 1, "C13: the '=' of a named argument is a delimiter token");
        let at = shadow::tok(pre.tok_n);
        assert!(at.token_type == TokenType::ASSIGN && at.channel == TokenChannel::DEFAULT && at.byte_offset.get() as usize == t.byte_at(pre.pi), "C13: ASSIGN token at the equal sign");
        assert!(n == pre.stack_len + 1 && lx.mode_stack[n - 2] == LexerMode::MacroCallValue { flags, pnl: 0 } && lx.mode_stack[n - 1] == LexerMode::WsOrCStyleCommentOnly, "C13: the value follows the '='");
    } else if name_char && c != '&' && c != '%' {
        // a (further) piece of a possible name
        assert!(lx.checkpoint.is_some() && tn == pre.tok_n + 1 && pi > pre.pi && n == pre.stack_len, "C13: name-shaped text is lexed as a text token under a checkpoint");
        assert!(shadow::tok(pre.tok_n).token_type == TokenType::MacroString, "C06: name-shaped argument text is a macro string");
        assert!(pi == t.n || !det_xid_continue(t.ch[pi]), "C06: the name token is the maximal run of name characters");
    } else if c != '&' && c != '%' {
        // not a name: the argument is a positional value; a live checkpoint is rolled back so that the
        // text is re-lexed as value text from where the possible name started
        assert!(lx.checkpoint.is_none(), "C01: switching to value mode releases the checkpoint");
        assert!(lx.mode_stack[n - 1] == LexerMode::MacroCallValue { flags, pnl: 0 }, "C13: a positional value is lexed by the value mode");
        // (after a rollback the name/value mode stays below the value mode and ends with the argument list)
        assert!(n == pre.stack_len + named as usize, "C13: the value mode takes over");
        if named {
            assert!(pi == cp_pi && tn == cp_tok, "C13/C02: the would-be name is re-lexed as value text (no ASSIGN, no name token)");
            assert!(lx.cur_token_byte_offset.get() as usize <= t.byte_at(cp_pi), "C02: rollback restores the token start mark");
        } else {
            assert!(pi == pre.pi && tn == pre.tok_n, "C13: nothing is consumed by the switch");
        }
    }
}

// first token of an argument: no checkpoint yet
macro_rules! lx_arg_or_value_first_harness {
    ($k:literal, $b:literal, $uw:literal, $name:ident, $c:literal, |$t:ident| $asm:expr) => {
        lx_harness! {
            #[kani::unwind($uw)]
            #[kani::stub(Lexer::lex_macro_var_expr, Lexer::stub_dead_bool)]
            #[kani::stub(Lexer::lex_macro_identifier, Lexer::stub_dead1)]
            fn $name() {
                let $t = Txt::<$k, $b>::any(PFX, &[$c]);
                kani::assume($asm);
                let t = $t;
                let flags = any_arg_flags();
                let mut lx = setup(&t, &arg_modes(flags));
                // look-behind: '(' or ',' (first token of the argument)
                shadow::preload_token(shadow::mk_token(TokenChannel::DEFAULT, if kani::any() { TokenType::LPAREN } else { TokenType::COMMA }, 1, 1, 0, Payload::None));
                let pre = snapshot(&lx, &t);
                lx.dispatch_macro_call_arg_or_value($c, flags);
                let pi = check_common(&lx, &t, &pre);
                check_progress::<$k, $b, 3>(&lx, &t, &pre, pi);
                check_arg_or_value_step(&lx, &t, &pre, pi, $c, flags, false, 0, 0);
                kani::cover!(pi > pre.pi || lx.mode_stack.len() != pre.stack_len || lx.mode_stack[pre.stack_len - 1] != arg_modes(flags)[2]);
                std::mem::forget(lx);
            }
        }
    };
}
lx_arg_or_value_first_harness!(3, 16, 7, lx_arg_or_value_first_name, 'a', |t| true);
lx_arg_or_value_first_harness!(2, 12, 7, lx_arg_or_value_first_assign, '=', |t| true);
lx_arg_or_value_first_harness!(2, 12, 7, lx_arg_or_value_first_comma, ',', |t| true);
lx_arg_or_value_first_harness!(2, 12, 7, lx_arg_or_value_first_rparen, ')', |t| true);
lx_arg_or_value_first_harness!(2, 12, 7, lx_arg_or_value_first_space, ' ', |t| true);
lx_arg_or_value_first_harness!(2, 12, 7, lx_arg_or_value_first_quote, '\'', |t| true);
lx_arg_or_value_first_harness!(2, 12, 7, lx_arg_or_value_first_digit, '1', |t| true);
lx_arg_or_value_first_harness!(2, 12, 7, lx_arg_or_value_first_slash, '/', |t| true);

// second step: a name-shaped token 'a' was just lexed by the real code (checkpoint live)
macro_rules! lx_arg_or_value_named_harness {
    ($k:literal, $b:literal, $uw:literal, $name:ident, $c:literal, |$t:ident| $asm:expr) => {
        lx_harness! {
            #[kani::unwind($uw)]
            #[kani::stub(Lexer::lex_macro_var_expr, Lexer::stub_dead_bool)]
            #[kani::stub(Lexer::lex_macro_identifier, Lexer::stub_dead1)]
            fn $name() {
                let $t = Txt::<$k, $b>::any(PFX, &['a', $c]);
                kani::assume($asm);
                let t = $t;
                let flags = any_arg_flags();
                let mut lx = setup(&t, &arg_modes(flags));
                shadow::preload_token(shadow::mk_token(TokenChannel::DEFAULT, TokenType::LPAREN, 1, 1, 0, Payload::None));
                let base = snapshot(&lx, &t);
                lx.dispatch_macro_call_arg_or_value('a', flags);
                assert!(lx.checkpoint.is_some() && shadow::tok_n() == base.tok_n + 1, "C13: name-shaped text is lexed under a checkpoint");
                let pre = snapshot(&lx, &t);
                kani::assume(pre.pi == 1);
                lx.dispatch_macro_call_arg_or_value($c, flags);
                let pi = check_common(&lx, &t, &base);
                check_progress::<$k, $b, 3>(&lx, &t, &pre, pi);
                check_arg_or_value_step(&lx, &t, &pre, pi, $c, flags, true, base.pi, base.tok_n);
                kani::cover!(lx.mode_stack.len() != pre.stack_len || lx.mode_stack[pre.stack_len - 1] != arg_modes(flags)[2] || shadow::tok_n() > pre.tok_n);
                std::mem::forget(lx);
            }
        }
    };
}
lx_arg_or_value_named_harness!(3, 16, 7, lx_arg_or_value_named_assign, '=', |t| true);
lx_arg_or_value_named_harness!(3, 16, 7, lx_arg_or_value_named_comma, ',', |t| true);
lx_arg_or_value_named_harness!(3, 16, 7, lx_arg_or_value_named_rparen, ')', |t| true);
lx_arg_or_value_named_harness!(3, 16, 7, lx_arg_or_value_named_space, ' ', |t| true);
lx_arg_or_value_named_harness!(3, 16, 7, lx_arg_or_value_named_quote, '"', |t| true);
lx_arg_or_value_named_harness!(3, 16, 7, lx_arg_or_value_named_slash, '/', |t| true);
lx_arg_or_value_named_harness!(3, 16, 7, lx_arg_or_value_named_percent, '%', |t| !ch_at(&t, 2).map_or(false, ref_name_start) && ch_at(&t, 2) != Some('*'));
lx_arg_or_value_named_harness!(5, 24, 8, lx_arg_or_value_named_mcomment, '%', |t| ch_at(&t, 2) == Some('*'));

// the look-ahead for '=' after blanks/comments: '=' makes the text before it an argument name,
// anything else rolls back to where the name started and the whole text becomes the value
lx_harness! {
    #[kani::unwind(6)]
    fn lx_maybe_arg_assign() {
        let t = Txt::<3, 16>::any(PFX, &['a']);
        kani::assume(t.n >= 2);
        let flags = any_arg_flags();
        let mut lx = setup(&t, &arg_modes(flags));
        shadow::preload_token(shadow::mk_token(TokenChannel::DEFAULT, TokenType::LPAREN, 1, 1, 0, Payload::None));
        let base = snapshot(&lx, &t);
        // the name token under its checkpoint, then the look-ahead modes, as the dispatcher leaves them
        lx.checkpoint();
        lx.cursor.advance();
        lx.emit_token(TokenChannel::DEFAULT, TokenType::MacroString, Payload::None);
        lx.push_mode(LexerMode::MaybeMacroCallArgAssign { flags });
        lx.push_mode(LexerMode::WsOrCStyleCommentOnly);
        // blanks (possibly with line feeds) are consumed by the Ws mode
        if t.ch[1].is_whitespace() {
            lx.start_token();
            lx.lex_ws();
        }
        lx.pop_mode();
        let mid = snapshot(&lx, &t);
        kani::assume(mid.pi < t.n);
        let c = t.ch[mid.pi];
        lx.lex_maybe_macro_call_arg_assign(c, flags);
        let pi = check_common(&lx, &t, &base);
        assert!(lx.checkpoint.is_none() && lx.errors.len() == base.err_n, "C01/C09: the look-ahead for '=' releases its checkpoint and reports nothing");
        if c == '=' {
            assert!(pi == mid.pi + 1 && shadow::tok_n() == mid.tok_n + 1, "C13: the '=' of a named argument is a delimiter token");
            let at = shadow::tok(mid.tok_n);
            assert!(at.token_type == TokenType::ASSIGN && at.channel == TokenChannel::DEFAULT && at.byte_offset.get() as usize == t.byte_at(mid.pi), "C13: ASSIGN token at the equal sign");
            assert!(lx.mode_stack.len() == 5 && lx.mode_stack[3] == LexerMode::MacroCallValue { flags, pnl: 0 } && lx.mode_stack[4] == LexerMode::WsOrCStyleCommentOnly, "C13: the value follows");
        } else {
            assert!(pi == base.pi && shadow::tok_n() == base.tok_n && shadow::line_n() == base.line_n, "C13/C02/C04: without '=' the would-be name, the blanks and their lines are discarded and re-lexed as value text");
            assert!(lx.mode_stack.len() == 4 && lx.mode_stack[3] == LexerMode::MacroCallValue { flags, pnl: 0 }, "C13: the argument is a positional value");
        }
        assert!(lx.mode_stack[2] == LexerMode::MacroCallArgOrValue { flags }, "C01: the modes below the look-ahead are untouched");
        kani::cover!(c == '=' && mid.pi == 2 && t.ch[1] == '\n');
        kani::cover!(c != '=' && t.nl_upto(mid.pi) > 0, "rollback over a line feed");
        std::mem::forget(lx);
    }
}

// optional tail argument of %sysfunc: ',' introduces exactly one more value
lx_harness! {
    #[kani::unwind(4)]
    fn lx_maybe_tail_arg() {
        let t = Txt::<2, 12>::any(PFX, &[]);
        kani::assume(t.n >= 1);
        let mut lx = setup(&t, &[LexerMode::Default, LexerMode::ExpectSymbol(TokenType::RPAREN, TokenChannel::DEFAULT), LexerMode::MaybeTailMacroArgValue]);
        shadow::preload_token(shadow::mk_token(TokenChannel::DEFAULT, TokenType::RPAREN, 1, 1, 0, Payload::None));
        let pre = snapshot(&lx, &t);
        let c = t.ch[0];
        lx.lex_maybe_tail_macro_call_arg_value(c);
        let pi = check_common(&lx, &t, &pre);
        check_progress::<2, 12, 3>(&lx, &t, &pre, pi);
        if c == ',' {
            assert!(pi == pre.pi + 1 && shadow::tok_n() == pre.tok_n + 1 && shadow::tok(pre.tok_n).token_type == TokenType::COMMA && shadow::tok(pre.tok_n).channel == TokenChannel::DEFAULT, "C13: the comma before the format argument is a delimiter token");
            assert!(lx.mode_stack.len() == pre.stack_len + 1 && lx.mode_stack[2] == LexerMode::MacroCallValue { flags: MacroArgNameValueFlags::new(MacroArgContext::BuiltInMacro, false, false), pnl: 0 }, "C13: exactly one more argument, in which commas are text");
        } else {
            assert!(pi == pre.pi && shadow::tok_n() == pre.tok_n && lx.mode_stack.len() == pre.stack_len - 1, "C14: anything else is left to the expected ')'");
        }
        assert!(lx.errors.len() == pre.err_n);
        kani::cover!(c == ',');
        kani::cover!(c != ',');
        std::mem::forget(lx);
    }
}

// =============================================================================================
// Macro definition argument list (C13: parentheses, commas and '=' of a definition are delimiters)

lx_harness! {
    #[kani::unwind(6)]
    fn lx_macro_def_args() {
        let t = Txt::<3, 16>::any(PFX, &[]);
        kani::assume(t.n >= 1);
        let which: u8 = kani::any();
        kani::assume(which < 3);
        let c = t.ch[0];
        let top = match which {
            0 => LexerMode::MaybeMacroDefArgs,
            1 => LexerMode::MacroDefArg,
            _ => LexerMode::MacroDefNextArgOrDefaultValue,
        };
        let mut lx = setup(&t, &[LexerMode::Default, LexerMode::MacroStatOptionsTextExpr, LexerMode::ExpectSymbol(TokenType::RPAREN, TokenChannel::DEFAULT), top]);
        shadow::preload_token(shadow::mk_token(TokenChannel::DEFAULT, TokenType::Identifier, 1, 1, 0, Payload::None));
        let pre = snapshot(&lx, &t);
        match which {
            0 => lx.lex_maybe_macro_def_args(c),
            1 => lx.dispatch_macro_def_arg(c),
            _ => lx.lex_macro_def_next_arg_or_default_value(c),
        }
        let pi = check_common(&lx, &t, &pre);
        check_progress::<3, 16, 3>(&lx, &t, &pre, pi);
        let n = lx.mode_stack.len();
        let tn = shadow::tok_n();
        let def_flags = MacroArgNameValueFlags::new(MacroArgContext::MacroDef, true, true);
        let one_tok = |tt: TokenType| tn == pre.tok_n + 1 && pi == pre.pi + 1 && shadow::tok(pre.tok_n).token_type == tt && shadow::tok(pre.tok_n).channel == TokenChannel::DEFAULT && shadow::tok(pre.tok_n).byte_offset.get() as usize == t.byte_at(pre.pi);
        if which == 0 {
            if c == '(' {
                assert!(one_tok(TokenType::LPAREN), "C13: the definition's '(' is a delimiter token");
                assert!(n == pre.stack_len + 2 && lx.mode_stack[n - 3] == LexerMode::ExpectSymbol(TokenType::RPAREN, TokenChannel::DEFAULT) && lx.mode_stack[n - 2] == LexerMode::MacroDefArg && lx.mode_stack[n - 1] == LexerMode::WsOrCStyleCommentOnly, "C14/C13: parameter list modes, ')' expected");
            } else {
                assert!(tn == pre.tok_n && pi == pre.pi && n == pre.stack_len - 1, "C13: no parameter list");
            }
            assert!(lx.errors.len() == pre.err_n);
        } else if which == 1 {
            if c == ')' {
                assert!(tn == pre.tok_n && pi == pre.pi && n == pre.stack_len - 1 && lx.errors.len() == pre.err_n, "C13: ')' ends the parameter list and is left to the expectation below");
            } else if c.is_ascii_alphabetic() || c == '_' {
                assert!(tn == pre.tok_n + 1 && shadow::tok(pre.tok_n).token_type == TokenType::Identifier && pi > pre.pi && lx.errors.len() == pre.err_n, "C06: parameter name is an identifier token");
                assert!(pi == t.n || !(t.ch[pi].is_ascii_alphanumeric() || t.ch[pi] == '_'), "C06: parameter name is the maximal ASCII identifier");
                assert!(n == pre.stack_len + 1 && lx.mode_stack[n - 2] == LexerMode::MacroDefNextArgOrDefaultValue && lx.mode_stack[n - 1] == LexerMode::WsOrCStyleCommentOnly, "C13: ',' or '=' is looked for after the name");
            } else {
                assert!(tn == pre.tok_n && pi == pre.pi && lx.errors.len() == pre.err_n + 1 && lx.errors[pre.err_n].error_kind() == ErrorKind::InvalidMacroDefArgName, "C09: an invalid parameter name is reported where it stands");
                assert!(n == pre.stack_len && lx.mode_stack[n - 1] == LexerMode::MacroCallArgOrValue { flags: def_flags }, "C01: recovery continues with the general argument lexer");
            }
        } else {
            if c == '=' {
                assert!(one_tok(TokenType::ASSIGN), "C13: the '=' of a parameter default is a delimiter token");
                assert!(n == pre.stack_len + 1 && lx.mode_stack[n - 2] == LexerMode::MacroCallValue { flags: def_flags, pnl: 0 } && lx.mode_stack[n - 1] == LexerMode::WsOrCStyleCommentOnly, "C13: default value follows");
            } else if c == ',' {
                assert!(one_tok(TokenType::COMMA), "C13: the comma between parameters is a delimiter token");
                assert!(n == pre.stack_len + 1 && lx.mode_stack[n - 2] == LexerMode::MacroDefArg && lx.mode_stack[n - 1] == LexerMode::WsOrCStyleCommentOnly, "C13: next parameter follows");
            } else {
                assert!(tn == pre.tok_n && pi == pre.pi && n == pre.stack_len - 1, "C13: anything else is left to the mode below");
            }
            assert!(lx.errors.len() == pre.err_n);
        }
        kani::cover!(which == 1 && pi == 3);
        kani::cover!(which == 1 && lx.errors.len() == pre.err_n + 1);
        kani::cover!(which == 2 && c == ',');
        kani::cover!(which == 0 && c == '(');
        std::mem::forget(lx);
    }
}

// =============================================================================================
// Double-quoted strings (C06/C07/C10/C11/C16): text scanning with "" escapes, the closing quote with
// its literal suffix (any letter case), plain literals re-typed from their start token.

/// reference scan of string-expression text from char index `from` (chars before it were consumed by
/// the dispatcher and are text): returns (stop index, 0 = end of input / 1 = closing quote / 2 = macro trigger)
pub(crate) fn ref_str_expr_scan<const K: usize, const B: usize>(t: &Txt<K, B>, from: usize, kept: &mut [bool; K]) -> (usize, u8) {
    let mut stop = t.n;
    let mut how = 0u8;
    let mut skip = 0usize;
    let mut i = 0;
    while i < K {
        if i >= from && how == 0 && i < t.n {
            if skip > 0 {
                skip -= 1;
            } else {
                let c = t.ch[i];
                if c == '"' {
                    if ch_at(t, i + 1) == Some('"') {
                        kept[i + 1] = false;
                        skip = 1;
                    } else {
                        stop = i;
                        how = 1;
                    }
                } else if c == '&' {
                    let (m, cnt) = ref_macro_amp(t, i);
                    if m {
                        stop = i;
                        how = 2;
                    } else {
                        skip = cnt - 1;
                    }
                } else if c == '%' && ref_macro_percent(t, i) {
                    stop = i;
                    how = 2;
                }
            }
        }
        i += 1;
    }
    (stop, how)
}

/// reference: suffix after a closing double quote at boundary c, for a genuine string expression
pub(crate) fn ref_expr_end_suffix<const K: usize, const B: usize>(t: &Txt<K, B>, c: usize) -> (TokenType, usize) {
    match ch_at(t, c) {
        Some('b' | 'B') => (TokenType::BitTestingLiteralExprEnd, 1),
        Some('d' | 'D') => {
            if matches!(ch_at(t, c + 1), Some('t' | 'T')) {
                (TokenType::DateTimeLiteralExprEnd, 2)
            } else {
                (TokenType::DateLiteralExprEnd, 1)
            }
        }
        Some('n' | 'N') => (TokenType::NameLiteralExprEnd, 1),
        Some('t' | 'T') => (TokenType::TimeLiteralExprEnd, 1),
        Some('x' | 'X') => (TokenType::HexStringLiteralExprEnd, 1),
        _ => (TokenType::StringExprEnd, 0),
    }
}

impl<'src> Lexer<'src> {
    /// lex_macro_var_expr on an ampersand run that is no macro trigger (assumed by the harness; the real
    /// function's answer is checked by lx_macro_var_expr_*): consumes nothing, returns false
    pub(crate) fn mvar_false(&mut self) -> bool {
        false
    }
}

macro_rules! lx_str_expr_harness {
    ($k:literal, $b:literal, $uw:literal, $name:ident, $plain:literal, $fixed:expr, |$c0:ident| $first:expr, |$t:ident| $asm:expr) => {
        lx_str_expr_harness!($k, $b, $uw, $name, $plain, $fixed, |$c0| $first, |$t| $asm, Txt::any(PFX, $fixed));
    };
    ($k:literal, $b:literal, $uw:literal, $name:ident, $plain:literal, $fixed:expr, |$c0:ident| $first:expr, |$t:ident| $asm:expr, $gen:expr) => {
        lx_harness! {
            #[kani::unwind($uw)]
            #[kani::stub(Lexer::lex_macro_var_expr, Lexer::mvar_false)]
            #[kani::stub(Lexer::lex_macro_identifier, Lexer::stub_dead1)]
            fn $name() {
                let $t: Txt<$k, $b> = $gen;
                kani::assume($t.n >= 1);
                kani::assume($asm);
                let t = $t;
                let c0 = t.ch[0];
                let $c0 = c0;
                // '&' / '%' that start a macro trigger are lexed by the macro sub-lexers (own harnesses)
                kani::assume(!(c0 == '&' && ref_macro_amp(&t, 0).0) && !(c0 == '%' && ch_at(&t, 1).map_or(false, ref_name_start)));
                let allow: bool = kani::any();
                let mut lx = setup(&t, &[LexerMode::Default, LexerMode::StringExpr { allow_stat: allow }]);
                // the opening quote, then possibly one more token (a macro variable / earlier text) on any channel
                shadow::preload_token(shadow::mk_token(TokenChannel::DEFAULT, TokenType::StringExprStart, 1, 1, 0, Payload::None));
                // plain literal vs genuine string expression is a constant of the instance
                let plain: bool = $plain;
                if !plain {
                    if kani::any() {
                        shadow::preload_token(shadow::mk_token(TokenChannel::DEFAULT, TokenType::MacroVarTerm, 2, 1, 0, Payload::None));
                    } else {
                        shadow::preload_token(shadow::mk_token(TokenChannel::HIDDEN, TokenType::WS, 2, 1, 0, Payload::None));
                    }
                }
                shadow::preload_literal_bytes(1);
                let pre = snapshot(&lx, &t);
                let first: char = $first;
                lx.dispatch_mode_str_expr(first, allow);
                let pi = check_common(&lx, &t, &pre);
                check_progress::<$k, $b, 2>(&lx, &t, &pre, pi);
                let mut kept = [true; $k];
                let closing_first = c0 == '"' && ch_at(&t, 1) != Some('"');
                // a lone '&' run / '%' consumed by the dispatcher is text; so is the first quote of a "" pair
                // (a '%' consumed by the dispatcher is text even before '*': only the scanner treats "%*" as a trigger)
                let (stop, how) = if closing_first { (0, 1) } else { ref_str_expr_scan(&t, if c0 == '%' { 1 } else { 0 }, &mut kept) };
                let tn = shadow::tok_n();
                if how == 1 && plain {
                    // plain literal: the start token becomes the literal, typed by its suffix
                    let (tt, sl) = ref_suffix(&t, stop + 1);
                    assert!(pi == stop + 1 + sl && tn == pre.tok_n && lx.mode_stack.len() == pre.stack_len - 1, "C06/C11: a plain double-quoted literal ends after its closing quote and suffix");
                    let lit = shadow::tok(pre.tok_n - 1);
                    assert!(lit.token_type == tt && lit.channel == TokenChannel::DEFAULT && lit.byte_offset.get() == 1, "C06/C16/C10: the start token becomes the literal of the type its suffix names (any letter case)");
                    if tt == TokenType::HexStringLiteral {
                        if lx.errors.len() == pre.err_n {
                            assert!(matches!(lit.payload, Payload::StringLiteral(..)), "C07: decoded hex literal carries a payload");
                        } else {
                            assert!(lx.errors.len() == pre.err_n + 1 && lx.errors[pre.err_n].error_kind() == ErrorKind::InvalidHexStringConstant, "C07: invalid hex literal is reported");
                            check_payload::<$k, $b, { $k + 1 }>(&t, 0, stop, &kept, lit.payload, pre.lit_n);
                        }
                    } else {
                        assert!(lx.errors.len() == pre.err_n, "C06: terminated literal reports no error");
                        check_payload::<$k, $b, { $k + 1 }>(&t, 0, stop, &kept, lit.payload, pre.lit_n);
                    }
                } else if closing_first {
                    // closing quote of a genuine string expression
                    let (tt, sl) = ref_expr_end_suffix(&t, 1);
                    assert!(pi == 1 + sl && tn == pre.tok_n + 1 && lx.mode_stack.len() == pre.stack_len - 1, "C10: the closing quote ends the string expression");
                    let et = shadow::tok(pre.tok_n);
                    assert!(et.token_type == tt && et.channel == TokenChannel::DEFAULT && matches!(et.payload, Payload::None) && et.byte_offset.get() as usize == t.byte_at(0), "C06/C16: end token typed by the suffix (any letter case)");
                    assert!(lx.errors.len() == pre.err_n);
                } else if how == 0 {
                    // end of input inside the string
                    assert!(pi == t.n && lx.mode_stack.len() == pre.stack_len - 1, "C10: an unterminated string expression is closed at end of input");
                    assert!(lx.errors.len() == pre.err_n + 1 && lx.errors[pre.err_n].error_kind() == ErrorKind::UnterminatedStringLiteral, "C10: and reported");
                    if plain {
                        assert!(tn == pre.tok_n && shadow::tok(pre.tok_n - 1).token_type == TokenType::StringLiteral, "C10: a plain unterminated literal is the retyped start token");
                        check_payload::<$k, $b, { $k + 1 }>(&t, 0, t.n, &kept, shadow::tok(pre.tok_n - 1).payload, pre.lit_n);
                    } else {
                        assert!(tn == pre.tok_n + 1 && shadow::tok(pre.tok_n).token_type == TokenType::StringExprEnd, "C10: a string expression with content gets an end token");
                        check_payload::<$k, $b, { $k + 1 }>(&t, 0, t.n, &kept, shadow::tok(pre.tok_n).payload, pre.lit_n);
                    }
                } else {
                    // text token up to the closing quote / macro trigger; the mode stays
                    assert!(pi == stop && pi > pre.pi && tn == pre.tok_n + 1 && lx.mode_stack.len() == pre.stack_len && lx.errors.len() == pre.err_n, "C06: string-expression text runs to the closing quote or the next macro trigger");
                    let tk = shadow::tok(pre.tok_n);
                    assert!(tk.token_type == TokenType::StringExprText && tk.channel == TokenChannel::DEFAULT && tk.byte_offset.get() as usize == t.byte_at(0), "C06/C10: text token inside the string expression");
                    check_payload::<$k, $b, { $k + 1 }>(&t, 0, stop, &kept, tk.payload, pre.lit_n);
                }
                kani::cover!(!plain || $k < 3 || (how == 1 && stop >= 1 && pi > stop + 1), "plain literal with a suffix");
                kani::cover!(plain || c0 == '"' || (how == 1 && !closing_first), "text before the closing quote of an expression");
                kani::cover!(how == 0);
                kani::cover!(how == 2 || $k < 3 || c0 == '"');
                kani::cover!(plain || c0 != '"' || (closing_first && pi == 3));
                kani::cover!(!kept[1] || $k < 3 || (c0 != '"' && $k < 4), "escaped quote");
                std::mem::forget(lx);
            }
        }
    };
}
// first char of the "anything else" class (the constant 'a': a symbolic first char makes CBMC encode the
// text scanner once per dispatcher arm, which exhausts 16 GB); plain literal / genuine expression
lx_str_expr_harness!(3, 16, 5, lx_str_expr_text_plain_k3, true, &['a'], |c| 'a', |t| true);
lx_str_expr_harness!(3, 16, 5, lx_str_expr_text_expr_k3, false, &['a'], |c| 'a', |t| true);
lx_str_expr_harness!(4, 20, 6, lx_str_expr_text_plain_k4, true, &['a'], |c| 'a', |t| true);
// first char '"': closing quote (+ suffix) or an escaped quote at the very start of the text
lx_str_expr_harness!(3, 16, 5, lx_str_expr_quote_plain_k3, true, &['"'], |c| '"', |t| true);
lx_str_expr_harness!(3, 16, 5, lx_str_expr_quote_expr_k3, false, &['"'], |c| '"', |t| true);
lx_str_expr_harness!(4, 20, 6, lx_str_expr_quote_plain_k4, true, &['"'], |c| '"', |t| true);
// first char '%' / '&' that is not a macro trigger: consumed by the dispatcher, still part of the text and payload
lx_str_expr_harness!(3, 16, 5, lx_str_expr_percent_k3, true, &['%'], |c| '%', |t| true);
lx_str_expr_harness!(3, 16, 5, lx_str_expr_amp_k3, false, &['&'], |c| '&', |t| true);

// exactly n ASCII characters at constant byte positions (cheap): plain literal / expression; 'a' or '"' first
lx_str_expr_harness!(3, 8, 5, lx_str_expr_text_plain_ascii_n3, true, &['a'], |c| 'a', |t| true, Txt::ascii_exact_fixed(&['a']));
lx_str_expr_harness!(4, 8, 6, lx_str_expr_text_plain_ascii_n4, true, &['a'], |c| 'a', |t| true, Txt::ascii_exact_fixed(&['a']));
lx_str_expr_harness!(4, 8, 6, lx_str_expr_text_expr_ascii_n4, false, &['a'], |c| 'a', |t| true, Txt::ascii_exact_fixed(&['a']));
lx_str_expr_harness!(3, 8, 5, lx_str_expr_quote_plain_ascii_n3, true, &['"'], |c| '"', |t| true, Txt::ascii_exact_fixed(&['"']));
lx_str_expr_harness!(4, 8, 6, lx_str_expr_quote_expr_ascii_n4, false, &['"'], |c| '"', |t| true, Txt::ascii_exact_fixed(&['"']));
lx_str_expr_harness!(3, 8, 5, lx_str_expr_percent_ascii_n3, true, &['%'], |c| '%', |t| true, Txt::ascii_exact_fixed(&['%']));
lx_str_expr_harness!(4, 8, 6, lx_str_expr_percent_ascii_n4, true, &['%'], |c| '%', |t| true, Txt::ascii_exact_fixed(&['%']));

// the opening quote
lx_harness! {
    #[kani::unwind(4)]
    fn lx_str_expr_start() {
        let t = Txt::<2, 12>::any(PFX, &['"']);
        let allow: bool = kani::any();
        let mut lx = setup(&t, &[LexerMode::Default]);
        let pre = snapshot(&lx, &t);
        lx.lex_string_expression_start(allow);
        let pi = check_common(&lx, &t, &pre);
        assert!(pi == 1 && shadow::tok_n() == pre.tok_n + 1, "C10: the opening quote is the start token");
        let tk = shadow::tok(pre.tok_n);
        assert!(tk.token_type == TokenType::StringExprStart && tk.channel == TokenChannel::DEFAULT && tk.byte_offset.get() as usize == t.byte_at(0), "C10/C06: StringExprStart at the quote");
        assert!(lx.mode_stack.len() == pre.stack_len + 1 && lx.mode_stack[pre.stack_len] == LexerMode::StringExpr { allow_stat: allow } && lx.errors.len() == pre.err_n, "C10: every start token opens exactly one string-expression mode");
        std::mem::forget(lx);
    }
}

// =============================================================================================
// Identifiers and keywords (C16: the keyword lookup sees the ASCII-upper-cased text; C06/C11: an
// identifier is the maximal run of name characters). The phf lookups hash their argument (SipHash):
// they are replaced by recorders that return a harness-chosen answer.

pub(crate) static mut KW_ARG: [u8; 8] = [0; 8];
pub(crate) static mut KW_ARG_LEN: usize = 0;
pub(crate) static mut KW_CALLS: usize = 0;
pub(crate) static mut KW_ANSWER: Option<TokenType> = None;

pub(crate) fn rec_parse_keyword(ident: &str) -> Option<TokenType> {
    let b = ident.as_bytes();
    unsafe {
        KW_CALLS += 1;
        KW_ARG_LEN = b.len();
        let mut i = 0;
        while i < 8 {
            if i < b.len() {
                KW_ARG[i] = b[i];
            }
            i += 1;
        }
        KW_ANSWER
    }
}

/// the recorded lookup argument equals the ASCII-upper-cased chars [s, e) of the text
pub(crate) fn kw_arg_is_upper_of<const K: usize, const B: usize>(t: &Txt<K, B>, s: usize, e: usize) -> bool {
    let mut ok = unsafe { KW_ARG_LEN } == e - s;
    let mut i = 0;
    while i < K {
        if i >= s && i < e {
            let c = t.ch[i];
            if !c.is_ascii() || unsafe { KW_ARG[i - s] } != (c as u8).to_ascii_uppercase() {
                ok = false;
            }
        }
        i += 1;
    }
    ok
}

impl<'src> Lexer<'src> {
    pub(crate) fn flag_datalines(&mut self, _four: bool) -> bool {
        assert!(false, "C11: datalines detection reached for a word that is not a datalines keyword");
        false
    }
}

lx_harness! {
    #[kani::unwind(10)]
    #[kani::stub(parse_keyword, rec_parse_keyword)]
    #[kani::stub(Lexer::lex_datalines, Lexer::flag_datalines)]
    fn lx_identifier_k4() {
        let t = Txt::<4, 20>::any(PFX, &[]);
        kani::assume(t.n >= 1 && ref_name_start(t.ch[0]));
        let is_kw: bool = kani::any();
        unsafe {
            KW_CALLS = 0;
            KW_ARG_LEN = 0;
            KW_ANSWER = if is_kw { Some(TokenType::KwData) } else { None };
        }
        let mut lx = setup(&t, &[LexerMode::Default]);
        let pre = snapshot(&lx, &t);
        lx.lex_identifier();
        let pi = check_common(&lx, &t, &pre);
        check_progress::<4, 20, 2>(&lx, &t, &pre, pi);
        // reference: maximal run of name characters (ASCII: letters, digits, '_'; otherwise XID_Continue)
        let mut e = 1;
        let mut ascii = t.ch[0].is_ascii();
        let mut i = 1;
        while i < 4 {
            if e == i && i < t.n {
                let c = t.ch[i];
                if c.is_ascii() {
                    if c.is_ascii_alphanumeric() || c == '_' {
                        e = i + 1;
                    }
                } else if det_xid_continue(c) {
                    e = i + 1;
                    ascii = false;
                }
            }
            i += 1;
        }
        assert!(pi == e && shadow::tok_n() == pre.tok_n + 1, "C06/C11: an identifier is the maximal run of name characters");
        let tk = shadow::tok(pre.tok_n);
        assert!(tk.channel == TokenChannel::DEFAULT && matches!(tk.payload, Payload::None) && tk.byte_offset.get() as usize == t.byte_at(pre.pi), "C06: identifier token");
        let calls = unsafe { KW_CALLS };
        if ascii {
            assert!(calls == 1 && kw_arg_is_upper_of(&t, 0, e), "C16: the keyword map is consulted with the ASCII-upper-cased identifier");
            assert!(tk.token_type == if is_kw { TokenType::KwData } else { TokenType::Identifier }, "C06/C16: keyword type iff the upper-cased text is in the keyword map");
        } else {
            assert!(calls == 0 && tk.token_type == TokenType::Identifier, "C06: a non-ASCII word is never a keyword");
        }
        assert!(lx.errors.len() == pre.err_n && lx.mode_stack.len() == pre.stack_len);
        kani::cover!(ascii && e == 4 && t.ch[1].is_ascii_lowercase() && t.ch[2].is_ascii_uppercase());
        kani::cover!(!ascii && e == 3);
        kani::cover!(ascii && e == 2 && t.n == 4 && !t.ch[2].is_ascii());
        std::mem::forget(lx);
    }
}

// macro identifier: '%' + name; the macro keyword map is consulted with the upper-cased name, the
// keyword dispatcher receives the result (C16, C06)
pub(crate) static mut DISP_KW: Option<TokenTypeMacroCallOrStat> = None;
pub(crate) static mut DISP_LABEL: bool = false;
pub(crate) static mut DISP_CALLS: usize = 0;
pub(crate) static mut DISP_AT: u32 = 0;

impl<'src> Lexer<'src> {
    pub(crate) fn rec_dispatch_kw(&mut self, kw: TokenTypeMacroCallOrStat, allow_label: bool) {
        unsafe {
            DISP_KW = Some(kw);
            DISP_LABEL = allow_label;
            DISP_CALLS += 1;
            DISP_AT = self.cur_byte_offset().get();
        }
    }
}

pub(crate) fn any_macro_kw_answer() -> Option<TokenType> {
    let kw = any_call_or_stat_kw();
    if kani::any() && kw != TokenTypeMacroCallOrStat::MacroIdentifier {
        Some(kw.into())
    } else {
        None
    }
}

/// reference: end (char index) of the macro name that starts at s, and whether it is all ASCII
pub(crate) fn ref_macro_name_end<const K: usize, const B: usize>(t: &Txt<K, B>, s: usize) -> (usize, bool) {
    let mut e = s + 1;
    let mut ascii = t.ch[s].is_ascii();
    let mut i = 0;
    while i < K {
        if i > s && e == i && i < t.n {
            let c = t.ch[i];
            if c.is_ascii() {
                if c.is_ascii_alphanumeric() || c == '_' {
                    e = i + 1;
                }
            } else if det_xid_continue(c) {
                e = i + 1;
                ascii = false;
            }
        }
        i += 1;
    }
    (e, ascii)
}

lx_harness! {
    #[kani::unwind(10)]
    #[kani::stub(token_type::parse_macro_keyword, rec_parse_keyword)]
    #[kani::stub(Lexer::dispatch_macro_call_or_stat, Lexer::rec_dispatch_kw)]
    fn lx_macro_identifier_k4() {
        let t = Txt::<4, 20>::any(PFX, &['%']);
        kani::assume(t.n >= 2 && ref_name_start(t.ch[1]));
        let ans = any_macro_kw_answer();
        unsafe {
            KW_CALLS = 0;
            KW_ARG_LEN = 0;
            KW_ANSWER = ans;
            DISP_CALLS = 0;
        }
        let allow: bool = kani::any();
        let mut lx = setup(&t, &[LexerMode::Default]);
        let pre = snapshot(&lx, &t);
        lx.lex_macro_identifier(allow);
        let pi = check_common(&lx, &t, &pre);
        let (e, ascii) = ref_macro_name_end(&t, 1);
        assert!(pi == e, "C06: a macro identifier is '%' followed by the maximal run of name characters");
        let (calls, dcalls, dkw, dlabel, dat) = unsafe { (KW_CALLS, DISP_CALLS, DISP_KW, DISP_LABEL, DISP_AT) };
        assert!(dcalls == 1 && dlabel == allow && dat as usize == t.byte_at(e), "C06: the keyword dispatcher runs once, after the name is consumed");
        if ascii {
            assert!(calls == 1 && kw_arg_is_upper_of(&t, 1, e), "C16: the macro keyword map is consulted with the ASCII-upper-cased name");
            let exp = match ans {
                Some(tt) => TokenTypeMacroCallOrStat::try_from(tt).unwrap(),
                None => TokenTypeMacroCallOrStat::MacroIdentifier,
            };
            assert!(dkw == Some(exp), "C06/C16: keyword type iff the upper-cased name is in the macro keyword map");
        } else {
            assert!(calls == 0 && dkw == Some(TokenTypeMacroCallOrStat::MacroIdentifier), "C06: a non-ASCII name is a user macro identifier");
        }
        assert!(lx.errors.len() == pre.err_n, "C01: no internal error from macro identifier lexing");
        kani::cover!(ascii && e == 4 && ans.is_some());
        kani::cover!(!ascii);
        std::mem::forget(lx);
    }
}

// lex_macro_call: look-ahead that lexes only macro calls (never statements)
lx_harness! {
    #[kani::unwind(10)]
    #[kani::stub(token_type::parse_macro_keyword, rec_parse_keyword)]
    #[kani::stub(Lexer::dispatch_macro_call_or_stat, Lexer::rec_dispatch_kw)]
    fn lx_macro_call_k3() {
        let t = Txt::<3, 16>::any(PFX, &['%']);
        let ans = any_macro_kw_answer();
        unsafe {
            KW_CALLS = 0;
            KW_ANSWER = ans;
            DISP_CALLS = 0;
        }
        let allow_quote: bool = kani::any();
        let allow_stat: bool = kani::any();
        let mut lx = setup(&t, &[LexerMode::Default, LexerMode::MacroNameExpr(false, None)]);
        let pre = snapshot(&lx, &t);
        let r = lx.lex_macro_call(allow_quote, allow_stat);
        let pi = check_common(&lx, &t, &pre);
        let is_name = ch_at(&t, 1).map_or(false, ref_name_start);
        let dcalls = unsafe { DISP_CALLS };
        if !is_name {
            assert!(matches!(r, MacroKwType::None) && pi == pre.pi && dcalls == 0 && lx.errors.len() == pre.err_n, "C13: a percent sign not followed by a name is not a macro trigger");
        } else {
            let (e, ascii) = ref_macro_name_end(&t, 1);
            let kw_tt: TokenType = if ascii { ans.unwrap_or(TokenType::MacroIdentifier) } else { TokenType::MacroIdentifier };
            let is_stat = is_macro_stat_tok_type(kw_tt);
            let is_quote = is_macro_quote_call_tok_type(kw_tt);
            if is_stat {
                assert!(matches!(r, MacroKwType::MacroStat) && pi == pre.pi && dcalls == 0, "C01: a macro statement keyword is left unconsumed for the enclosing mode");
                assert!(lx.errors.len() == pre.err_n + (!allow_stat) as usize, "C09: a statement where only a call may stand is reported once");
            } else if is_quote && !allow_quote {
                assert!(matches!(r, MacroKwType::None) && pi == pre.pi && dcalls == 0 && lx.errors.len() == pre.err_n, "C01: quoting functions are not lexed in name position");
            } else {
                assert!(matches!(r, MacroKwType::MacroCall) && pi == e && dcalls == 1 && lx.errors.len() == pre.err_n, "C03/C06: the call's '%name' is consumed exactly (look-ahead cursor and real cursor agree)");
                assert!(unsafe { DISP_AT } as usize == t.byte_at(e) && unsafe { !DISP_LABEL }, "C06: the keyword dispatcher runs after the name is consumed; labels are not possible here");
            }
        }
        kani::cover!(matches!(r, MacroKwType::MacroCall) && pi == 3 && t.len - t.pre_b > 3, "call with a multi-byte name");
        kani::cover!(matches!(r, MacroKwType::MacroStat) && !allow_stat);
        kani::cover!(matches!(r, MacroKwType::None) && is_name);
        std::mem::forget(lx);
    }
}

// =============================================================================================
// Open-code symbols: longest match over the symbol table (C11, C06), character formats (C03: the
// look-ahead cursor's char offset difference is what the real cursor advances by)

pub(crate) fn ref_open_symbol(c: char, nx: Option<char>) -> Option<(TokenType, usize)> {
    Some(match c {
        '(' => (TokenType::LPAREN, 1),
        ')' => (TokenType::RPAREN, 1),
        '{' => (TokenType::LCURLY, 1),
        '}' => (TokenType::RCURLY, 1),
        '[' => (TokenType::LBRACK, 1),
        ']' => (TokenType::RBRACK, 1),
        '!' => if nx == Some('!') { (TokenType::EXCL2, 2) } else { (TokenType::EXCL, 1) },
        '¦' => if nx == Some('¦') { (TokenType::BPIPE2, 2) } else { (TokenType::BPIPE, 1) },
        '|' => if nx == Some('|') { (TokenType::PIPE2, 2) } else { (TokenType::PIPE, 1) },
        '¬' | '^' | '~' | '∘' => if nx == Some('=') { (TokenType::NE, 2) } else { (TokenType::NOT, 1) },
        '+' => (TokenType::PLUS, 1),
        '-' => (TokenType::MINUS, 1),
        '<' => if nx == Some('=') { (TokenType::LE, 2) } else if nx == Some('>') { (TokenType::LTGT, 2) } else { (TokenType::LT, 1) },
        '>' => if nx == Some('=') { (TokenType::GE, 2) } else if nx == Some('<') { (TokenType::GTLT, 2) } else { (TokenType::GT, 1) },
        ',' => (TokenType::COMMA, 1),
        ':' => (TokenType::COLON, 1),
        '=' => if nx == Some('*') { (TokenType::SoundsLike, 2) } else { (TokenType::ASSIGN, 1) },
        '@' => (TokenType::AT, 1),
        '#' => (TokenType::HASH, 1),
        '?' => (TokenType::QUESTION, 1),
        _ => return None,
    })
}

lx_harness! {
    #[kani::unwind(5)]
    #[kani::stub(Lexer::lex_numeric_literal, Lexer::stub_dead1)]
    #[kani::stub(Lexer::lex_char_format, Lexer::stub_dead_bool)]
    #[kani::stub(Lexer::lex_predicted_comment, Lexer::stub_dead_bool)]
    fn lx_symbols_table() {
        let t = Txt::<2, 12>::any(PFX, &[]);
        kani::assume(t.n >= 1);
        let c = t.ch[0];
        // the characters the open-code dispatcher hands to lex_symbols ('*', '.', '$' have their own harnesses)
        kani::assume(!c.is_whitespace() && !matches!(c, '\'' | '"' | ';' | '/' | '&' | '%' | '0'..='9' | '*' | '.' | '$') && !ref_name_start(c));
        let mut lx = setup(&t, &[LexerMode::Default]);
        let pre = snapshot(&lx, &t);
        lx.lex_symbols(c);
        let pi = check_common(&lx, &t, &pre);
        check_progress::<2, 12, 2>(&lx, &t, &pre, pi);
        assert!(shadow::tok_n() == pre.tok_n + 1 && lx.errors.len() == pre.err_n && lx.mode_stack.len() == pre.stack_len, "C11: a symbol is one token");
        let tk = shadow::tok(pre.tok_n);
        match ref_open_symbol(c, ch_at(&t, 1)) {
            Some((tt, len)) => assert!(tk.token_type == tt && tk.channel == TokenChannel::DEFAULT && pi == pre.pi + len, "C11/C06: operator symbols are read by longest match and are exactly their symbol"),
            None => assert!(tk.token_type == TokenType::CatchAll && tk.channel == TokenChannel::HIDDEN && pi == pre.pi + 1, "C11/C06: any other character is a hidden one-character CatchAll"),
        }
        kani::cover!(tk.token_type == TokenType::GTLT);
        kani::cover!(tk.token_type == TokenType::NE && c == '∘');
        kani::cover!(tk.token_type == TokenType::CatchAll && c.len_utf8() == 4);
        std::mem::forget(lx);
    }
}

lx_harness! {
    #[kani::unwind(8)]
    #[kani::stub(Lexer::lex_numeric_literal, Lexer::stub_dead1)]
    #[kani::stub(Lexer::lex_predicted_comment, Lexer::stub_dead_bool)]
    fn lx_char_format_k5() {
        let t = Txt::<5, 24>::any(PFX, &['$']);
        let mut lx = setup(&t, &[LexerMode::Default]);
        let pre = snapshot(&lx, &t);
        lx.lex_symbols('$');
        let pi = check_common(&lx, &t, &pre);
        check_progress::<5, 24, 2>(&lx, &t, &pre, pi);
        // reference: '$' name? digits* '.' digits*
        let mut j = 1usize;
        if ch_at(&t, 1).map_or(false, ref_name_start) {
            j = 2;
            let mut i = 2;
            while i < 5 {
                if j == i && i < t.n && det_xid_continue(t.ch[i]) {
                    j = i + 1;
                }
                i += 1;
            }
        }
        let mut i = 1;
        while i < 5 {
            if i >= j && j == i && i < t.n && t.ch[i].is_ascii_digit() {
                j = i + 1;
            }
            i += 1;
        }
        let is_fmt = ch_at(&t, j) == Some('.');
        let mut e = j + 1;
        let mut i = 2;
        while i < 5 {
            if is_fmt && i >= e && e == i && i < t.n && t.ch[i].is_ascii_digit() {
                e = i + 1;
            }
            i += 1;
        }
        assert!(shadow::tok_n() == pre.tok_n + 1 && lx.errors.len() == pre.err_n, "C11: one token");
        let tk = shadow::tok(pre.tok_n);
        if is_fmt {
            assert!(tk.token_type == TokenType::CharFormat && tk.channel == TokenChannel::DEFAULT && pi == e, "C11/C06/C03: a character format is '$' name? digits* '.' digits*, consumed exactly");
        } else {
            assert!(tk.token_type == TokenType::DOLLAR && pi == 1, "C11: a '$' that starts no format is the DOLLAR symbol");
        }
        kani::cover!(is_fmt && e == 5 && t.len - t.pre_b > 5, "format with a multi-byte name and a precision");
        kani::cover!(is_fmt && e == 2);
        kani::cover!(!is_fmt && j >= 3);
        std::mem::forget(lx);
    }
}

// =============================================================================================
// dispatch_mode_default as a classifier (C11): which sub-lexer gets which first character, and what
// every kind of token does to the statement-pending flag. The sub-lexers are contract stand-ins
// (consume one char, emit one token of a type of theirs) that record which one ran.

pub(crate) static mut WHICH: u8 = 0;
pub(crate) static mut WHICH_ARG: bool = false;

impl<'src> Lexer<'src> {
    fn cls_emit(&mut self, id: u8, ch: TokenChannel, tt: TokenType) {
        unsafe {
            WHICH = id;
        }
        self.pre_advance();
        self.emit_token(ch, tt, Payload::None);
    }
    pub(crate) fn cls_ws(&mut self) {
        self.cls_emit(1, TokenChannel::HIDDEN, TokenType::WS);
    }
    pub(crate) fn cls_squote(&mut self) {
        self.cls_emit(2, TokenChannel::DEFAULT, TokenType::StringLiteral);
    }
    pub(crate) fn cls_dquote(&mut self, allow_stat: bool) {
        unsafe {
            WHICH_ARG = allow_stat;
        }
        self.cls_emit(3, TokenChannel::DEFAULT, TokenType::StringExprStart);
    }
    pub(crate) fn cls_comment(&mut self) {
        self.cls_emit(4, TokenChannel::COMMENT, TokenType::CStyleComment);
    }
    pub(crate) fn cls_mvar(&mut self) -> bool {
        let r: bool = kani::any();
        if r {
            self.cls_emit(5, TokenChannel::DEFAULT, TokenType::MacroVarResolve);
        } else {
            unsafe {
                WHICH = 5;
            }
        }
        r
    }
    pub(crate) fn cls_mcomment(&mut self) {
        self.cls_emit(6, TokenChannel::COMMENT, TokenType::MacroComment);
    }
    pub(crate) fn cls_mident(&mut self, allow_label: bool) {
        unsafe {
            WHICH_ARG = allow_label;
        }
        self.cls_emit(7, TokenChannel::DEFAULT, TokenType::MacroIdentifier);
    }
    pub(crate) fn cls_numeric(&mut self, seen_dot: bool) {
        unsafe {
            WHICH_ARG = seen_dot;
        }
        self.cls_emit(8, TokenChannel::DEFAULT, TokenType::IntegerLiteral);
    }
    pub(crate) fn cls_ident(&mut self) {
        // an identifier, a keyword, or a whole datalines block ending in its terminator
        let dl: bool = kani::any();
        self.cls_emit(9, TokenChannel::DEFAULT, if dl { TokenType::SEMI } else { TokenType::Identifier });
    }
    pub(crate) fn cls_symbols(&mut self, _c: char) {
        let k: u8 = kani::any();
        match k % 3 {
            0 => self.cls_emit(10, TokenChannel::DEFAULT, TokenType::PLUS),
            1 => self.cls_emit(10, TokenChannel::HIDDEN, TokenType::CatchAll),
            _ => self.cls_emit(10, TokenChannel::COMMENT, TokenType::PredictedCommentStat),
        }
    }
}

lx_harness! {
    #[kani::unwind(5)]
    #[kani::stub(Lexer::lex_ws, Lexer::cls_ws)]
    #[kani::stub(Lexer::lex_single_quoted_str, Lexer::cls_squote)]
    #[kani::stub(Lexer::lex_string_expression_start, Lexer::cls_dquote)]
    #[kani::stub(Lexer::lex_cstyle_comment, Lexer::cls_comment)]
    #[kani::stub(Lexer::lex_macro_var_expr, Lexer::cls_mvar)]
    #[kani::stub(Lexer::lex_macro_comment, Lexer::cls_mcomment)]
    #[kani::stub(Lexer::lex_macro_identifier, Lexer::cls_mident)]
    #[kani::stub(Lexer::lex_numeric_literal, Lexer::cls_numeric)]
    #[kani::stub(Lexer::lex_identifier, Lexer::cls_ident)]
    #[kani::stub(Lexer::lex_symbols, Lexer::cls_symbols)]
    fn lx_default_classifier() {
        let t = Txt::<3, 16>::any(PFX, &[]);
        kani::assume(t.n >= 1);
        let c = t.ch[0];
        let nx = ch_at(&t, 1);
        let mut lx = setup(&t, &[LexerMode::Default]);
        let pend0: bool = kani::any();
        lx.set_pending_stat(pend0);
        unsafe {
            WHICH = 0;
        }
        let pre = snapshot(&lx, &t);
        lx.dispatch_mode_default(c);
        let pi = check_common(&lx, &t, &pre);
        check_progress::<3, 16, 2>(&lx, &t, &pre, pi);
        let (w, arg) = unsafe { (WHICH, WHICH_ARG) };
        let tn = shadow::tok_n();
        assert!(tn == pre.tok_n + 1, "C11: one token per step in open code");
        let tk = shadow::tok(pre.tok_n);
        assert!(tk.byte_offset.get() as usize == t.byte_at(pre.pi), "C02: the token starts at the dispatched character");
        // classification by the first character(s)
        let exp: u8 = if c.is_whitespace() {
            1
        } else if c == '\'' {
            2
        } else if c == '"' {
            3
        } else if c == ';' {
            0
        } else if c == '/' {
            if nx == Some('*') { 4 } else { 0 }
        } else if c == '&' {
            5
        } else if c == '%' {
            if nx == Some('*') { 6 } else if nx.map_or(false, ref_name_start) { 7 } else { 0 }
        } else if c.is_ascii_digit() {
            8
        } else if ref_name_start(c) {
            9
        } else {
            10
        };
        assert!(w == exp, "C11: the first character(s) select the token class (whitespace, literal, comment, macro trigger, number, word, symbol)");
        if exp == 3 {
            assert!(arg, "C11: macro statements are allowed inside open-code strings");
        }
        if exp == 7 {
            assert!(arg, "C10/C11: a macro label is possible in open code");
        }
        if exp == 8 {
            assert!(!arg, "C08/C11: a literal that starts with a digit has not seen a dot");
        }
        if exp == 0 {
            let (tt, len) = if c == ';' { (TokenType::SEMI, 1) } else if c == '/' { (TokenType::FSLASH, 1) } else { (TokenType::PERCENT, 1) };
            assert!(tk.token_type == tt && tk.channel == TokenChannel::DEFAULT && pi == pre.pi + len, "C11/C06: ';', '/' and a lone '%' are one-character symbol tokens");
        }
        if exp == 5 && tk.token_type != TokenType::MacroVarResolve {
            // not a macro variable: the whole ampersand run is one AMP token
            let mut e = 1;
            let mut i = 1;
            while i < 3 {
                if e == i && i < t.n && t.ch[i] == '&' {
                    e = i + 1;
                }
                i += 1;
            }
            assert!(tk.token_type == TokenType::AMP && pi == e, "C11/C06: an ampersand run that is no macro trigger is one AMP token");
        }
        // statement-pending flag
        let pend1 = lx.pending_stat();
        if tk.channel != TokenChannel::DEFAULT && tk.token_type != TokenType::CatchAll {
            assert!(pend1 == pend0, "C11: whitespace and comments do not change whether a statement is pending");
        } else if tk.token_type == TokenType::SEMI {
            assert!(!pend1, "C11: a semicolon (or a datalines block, which ends in one) closes the statement");
        } else if tk.token_type == TokenType::MacroIdentifier {
            assert!(pend1 == pend0, "C11: a macro call or statement keyword does not by itself start an open-code statement");
        } else {
            assert!(pend1, "C11: every other token starts or continues a statement");
        }
        assert!(lx.errors.len() == pre.err_n && lx.mode_stack.len() == pre.stack_len && lx.checkpoint.is_none());
        kani::cover!(exp == 10 && tk.token_type == TokenType::CatchAll);
        kani::cover!(exp == 9 && tk.token_type == TokenType::SEMI && pend0);
        kani::cover!(exp == 5 && tk.token_type == TokenType::AMP && pi == 2);
        kani::cover!(exp == 0 && c == '%');
        kani::cover!(exp == 1 && c == '\u{2003}');
        std::mem::forget(lx);
    }
}

// =============================================================================================
// %do / %local / %global look-ahead (C14: the expectation sequence of each form), name expressions

lx_harness! {
    #[kani::unwind(10)]
    #[kani::stub(token_type::parse_macro_keyword, rec_parse_keyword)]
    #[kani::stub(Lexer::dispatch_macro_call_or_stat, Lexer::rec_dispatch_kw)]
    fn lx_macro_do_arms() {
        let t = Txt::<3, 16>::any(PFX, &[]);
        kani::assume(t.n >= 1);
        let c = t.ch[0];
        let ans = any_macro_kw_answer();
        unsafe {
            KW_CALLS = 0;
            KW_ANSWER = ans;
            DISP_CALLS = 0;
        }
        let mut lx = setup(&t, &[LexerMode::Default, LexerMode::MacroDo]);
        shadow::preload_token(shadow::mk_token(TokenChannel::DEFAULT, TokenType::KwmDo, 1, 1, 0, Payload::None));
        if kani::any() {
            shadow::preload_token(shadow::mk_token(TokenChannel::HIDDEN, TokenType::WS, 2, 1, 0, Payload::None));
        }
        let pend_len = lx.pending_stat_stack.len();
        let pre = snapshot(&lx, &t);
        lx.dispatch_macro_do(c);
        assert!(lx.pending_stat_stack.len() == pend_len && lx.macro_nesting_level == 0, "C15/C11: the %do look-ahead leaves the pending-statement frames alone (the keyword opened the frame, %end closes it)");
        let pi = check_common(&lx, &t, &pre);
        let n = lx.mode_stack.len();
        let tn = shadow::tok_n();
        let is_name = c == '%' && ch_at(&t, 1).map_or(false, ref_name_start);
        let (e, ascii) = if is_name { ref_macro_name_end(&t, 1) } else { (0, false) };
        let loop_kw = is_name && ascii && matches!(ans, Some(TokenType::KwmWhile | TokenType::KwmUntil));
        assert!(lx.errors.len() == pre.err_n && lx.checkpoint.is_none(), "C01/C09: the %do look-ahead reports nothing and takes no checkpoint");
        if c == ';' {
            assert!(pi == pre.pi + 1 && tn == pre.tok_n + 1 && shadow::tok(pre.tok_n).token_type == TokenType::SEMI && shadow::tok(pre.tok_n).channel == TokenChannel::DEFAULT, "C14: '%do;' - the semicolon is consumed as SEMI");
            assert!(n == pre.stack_len && lx.mode_stack[n - 1] == LexerMode::WsOrCStyleCommentOnly, "C01: the %do mode is done");
        } else if loop_kw {
            assert!(pi == e && unsafe { DISP_CALLS } == 1 && unsafe { DISP_KW } == Some(TokenTypeMacroCallOrStat::try_from(ans.unwrap()).unwrap()) && n == pre.stack_len - 1, "C14: %do %while / %until - the keyword pre-loads its own expectations");
        } else {
            assert!(pi == pre.pi && tn == pre.tok_n && unsafe { DISP_CALLS } == 0, "C14: iterative %do - nothing is consumed by the look-ahead");
            assert!(n == pre.stack_len + 4, "C14: iterative %do pre-loads name, '=', expression");
            assert!(lx.mode_stack[n - 5] == LexerMode::MacroEval { macro_eval_flags: MacroEvalExprFlags::new(MacroEvalNumericMode::Integer, MacroEvalNextArgumentMode::None, true, true, false), pnl: 0 }, "C14: start expression, ended by a statement keyword or ';'");
            assert!(lx.mode_stack[n - 4] == LexerMode::WsOrCStyleCommentOnly && lx.mode_stack[n - 3] == LexerMode::ExpectSymbol(TokenType::ASSIGN, TokenChannel::DEFAULT) && lx.mode_stack[n - 2] == LexerMode::WsOrCStyleCommentOnly, "C14: the '=' of an iterative %do is mandatory");
            assert!(lx.mode_stack[n - 1] == LexerMode::MacroNameExpr(false, Some(ErrorKind::UnexpectedSemiInDoLoop)), "C14: the loop variable name comes first");
        }
        kani::cover!(loop_kw && e == 3);
        kani::cover!(is_name && !loop_kw, "macro call that makes the loop variable name");
        kani::cover!(c == ';');
        std::mem::forget(lx);
    }
}

lx_harness! {
    #[kani::unwind(7)]
    fn lx_macro_local_global_arms() {
        let t = Txt::<2, 12>::any(PFX, &[]);
        kani::assume(t.n >= 1);
        let c = t.ch[0];
        let is_local: bool = kani::any();
        let mut lx = setup(&t, &[LexerMode::Default, LexerMode::MacroLocalGlobal { is_local }]);
        shadow::preload_token(shadow::mk_token(TokenChannel::DEFAULT, if is_local { TokenType::KwmLocal } else { TokenType::KwmGlobal }, 1, 1, 0, Payload::None));
        let pre = snapshot(&lx, &t);
        lx.dispatch_macro_local_global(c, is_local);
        let pi = check_common(&lx, &t, &pre);
        let n = lx.mode_stack.len();
        assert!(lx.errors.len() == pre.err_n && lx.checkpoint.is_none());
        if c == '/' {
            assert!(pi == pre.pi + 1 && shadow::tok_n() == pre.tok_n + 1 && shadow::tok(pre.tok_n).token_type == TokenType::FSLASH && shadow::tok(pre.tok_n).channel == TokenChannel::DEFAULT, "C14: '/ readonly' form - the slash is a token");
            assert!(n == pre.stack_len + 8, "C14: readonly keyword, then the %let-like sequence");
            let b = pre.stack_len - 1;
            assert!(lx.mode_stack[b] == LexerMode::ExpectSemiOrEOF && lx.mode_stack[b + 1] == LexerMode::MacroSemiTerminatedTextExpr && lx.mode_stack[b + 2] == LexerMode::WsOrCStyleCommentOnly, "C14: value and terminating semicolon");
            assert!(lx.mode_stack[b + 3] == LexerMode::ExpectSymbol(TokenType::ASSIGN, TokenChannel::DEFAULT) && lx.mode_stack[b + 4] == LexerMode::WsOrCStyleCommentOnly, "C14: the '=' is mandatory");
            assert!(lx.mode_stack[b + 5] == LexerMode::MacroNameExpr(false, Some(ErrorKind::InvalidMacroLocalGlobalReadonlyVarName)) && lx.mode_stack[b + 6] == LexerMode::WsOrCStyleCommentOnly, "C14: variable name");
            assert!(lx.mode_stack[b + 7] == LexerMode::MacroNameExpr(false, Some(if is_local { ErrorKind::MissingMacroLocalReadonlyKw } else { ErrorKind::MissingMacroGlobalReadonlyKw })) && lx.mode_stack[b + 8] == LexerMode::WsOrCStyleCommentOnly, "C14: readonly keyword");
        } else {
            assert!(pi == pre.pi && shadow::tok_n() == pre.tok_n, "C14: variable list form - nothing consumed by the look-ahead");
            assert!(n == pre.stack_len + 1 && lx.mode_stack[n - 2] == LexerMode::ExpectSemiOrEOF && lx.mode_stack[n - 1] == LexerMode::MacroStatOptionsTextExpr, "C14: variable list up to the mandatory semicolon");
        }
        kani::cover!(c == '/' && !is_local);
        kani::cover!(c != '/');
        std::mem::forget(lx);
    }
}

impl<'src> Lexer<'src> {
    pub(crate) fn contract_macro_call(&mut self, _q: bool, _s: bool) -> MacroKwType {
        match kani::any::<u8>() % 3 {
            0 => MacroKwType::None,
            1 => MacroKwType::MacroStat,
            _ => {
                self.pre_advance();
                self.pre_advance();
                self.emit_token(TokenChannel::DEFAULT, TokenType::MacroIdentifier, Payload::None);
                MacroKwType::MacroCall
            }
        }
    }
    pub(crate) fn contract_mvar(&mut self) -> bool {
        let r: bool = kani::any();
        if r {
            self.pre_advance();
            self.pre_advance();
            self.emit_token(TokenChannel::DEFAULT, TokenType::MacroVarResolve, Payload::Integer(0));
        }
        r
    }
}

lx_harness! {
    #[kani::unwind(6)]
    #[kani::stub(Lexer::lex_macro_call, Lexer::contract_macro_call)]
    #[kani::stub(Lexer::lex_macro_var_expr, Lexer::contract_mvar)]
    #[kani::stub(Lexer::lex_cstyle_comment, Lexer::cls_comment)]
    fn lx_name_expr_arms() {
        let t = Txt::<3, 16>::any(PFX, &[]);
        kani::assume(t.n >= 2);
        let c = t.ch[0];
        let found: bool = kani::any();
        let first = !found;
        let err = match kani::any::<u8>() % 3 {
            0 => None,
            1 => Some(ErrorKind::InvalidMacroLetVarName),
            _ => Some(ErrorKind::UnexpectedSemiInDoLoop),
        };
        let mut lx = setup(&t, &[LexerMode::Default, LexerMode::ExpectSymbol(TokenType::ASSIGN, TokenChannel::DEFAULT), LexerMode::MacroNameExpr(found, err)]);
        shadow::preload_token(shadow::mk_token(TokenChannel::DEFAULT, TokenType::KwmLet, 1, 1, 0, Payload::None));
        let pre = snapshot(&lx, &t);
        lx.dispatch_macro_name_expr(c, first, err);
        let pi = check_common(&lx, &t, &pre);
        check_progress::<3, 16, 2>(&lx, &t, &pre, pi);
        let n = lx.mode_stack.len();
        let tn = shadow::tok_n();
        let is_name = ref_name_start(c) || (!first && det_xid_continue(c));
        let special = c == '&' || c == '%' || (c == '/' && ch_at(&t, 1) == Some('*'));
        if is_name && !special {
            assert!(tn == pre.tok_n + 1 && shadow::tok(pre.tok_n).token_type == TokenType::MacroString && pi > pre.pi && (pi == t.n || !det_xid_continue(t.ch[pi])), "C06: a name part is the maximal run of name characters, lexed as text");
            assert!(n == pre.stack_len && lx.mode_stack[n - 1] == LexerMode::MacroNameExpr(true, err) && lx.errors.len() == pre.err_n, "C14: a name was found - no error is due any more");
        } else if !special {
            assert!(pi == pre.pi && tn == pre.tok_n && n == pre.stack_len - 1, "C14: anything that cannot be part of a name ends the name expression unconsumed");
            let due = first && err.is_some();
            assert!(lx.errors.len() == pre.err_n + due as usize, "C14/C09: a missing name is reported exactly when no part of it was found");
            if due {
                assert!(Some(lx.errors[pre.err_n].error_kind()) == err && lx.errors[pre.err_n].at_byte_offset() as usize == t.byte_at(pre.pi), "C14: with the statement's own error, where the name was expected");
            }
        } else if pi > pre.pi && c != '/' {
            // a macro variable / macro call made (part of) the name
            assert!(lx.mode_stack[pre.stack_len - 1] == LexerMode::MacroNameExpr(true, err) && lx.errors.len() == pre.err_n, "C14: a macro trigger counts as (part of) the name");
        } else if c != '/' {
            assert!(n == pre.stack_len - 1 && lx.errors.len() == pre.err_n + (first && err.is_some()) as usize, "C14: '&' / '%' that is no trigger ends the name expression");
        }
        kani::cover!(is_name && !special && pi == 3);
        kani::cover!(!is_name && !special && first && err.is_some());
        kani::cover!(special && pi > pre.pi && c == '%');
        std::mem::forget(lx);
    }
}

// =============================================================================================
// Datalines, called directly after the keyword (C06/C10/C11/C09). The function's own debug assertion
// upper-cases the keyword into a String and compares strings, which dominates the debug-configuration
// query; this harness runs in the release-like configuration (the assertion is an observer only).

pub(crate) fn found_any<const K: usize, const B: usize>(t: &Txt<K, B>, j: usize) -> bool {
    let mut f = false;
    let mut i = 0;
    while i < K {
        if i > j && i < t.n && t.ch[i] == ';' {
            f = true;
        }
        i += 1;
    }
    f
}

macro_rules! lx_datalines_direct_harness {
    ($k:literal, $b:literal, $uw:literal, $name:ident, $four:literal, $fixed:expr) => {
        lx_harness! {
            #[kani::unwind($uw)]
            fn $name() {
                let fx: &[char] = $fixed;
                let t = Txt::<$k, $b>::any(PFX, fx);
                let kwl = fx.len();
                let mut lx = setup(&t, &[LexerMode::Default]);
                // look-behind: nothing at all, a semicolon, or something else on the default channel; then maybe a hidden token
                let prev: u8 = kani::any();
                kani::assume(prev < 3);
                if prev == 1 {
                    shadow::preload_token(shadow::mk_token(TokenChannel::DEFAULT, TokenType::SEMI, 1, 1, 0, Payload::None));
                } else if prev == 2 {
                    shadow::preload_token(shadow::mk_token(TokenChannel::DEFAULT, TokenType::Identifier, 1, 1, 0, Payload::None));
                }
                if prev != 0 && kani::any() {
                    shadow::preload_token(shadow::mk_token(TokenChannel::HIDDEN, TokenType::WS, 2, 1, 0, Payload::None));
                }
                let pre = snapshot(&lx, &t);
                // the identifier scanner consumed the keyword
                let mut q = 0;
                while q < kwl {
                    lx.cursor.advance();
                    q += 1;
                }
                let r = lx.lex_datalines($four);
                let pi = check_common(&lx, &t, &pre);
                // reference: blanks then ';' after the keyword, at statement start
                let mut j = kwl;
                let mut i = 0;
                while i < $k {
                    if i >= kwl && i == j && i < t.n && t.ch[i].is_whitespace() {
                        j += 1;
                    }
                    i += 1;
                }
                let is_dl = prev != 2 && j < t.n && t.ch[j] == ';';
                assert!(r == is_dl, "C11/C15: a datalines block starts with its keyword at statement start, followed by blanks and ';'");
                if !is_dl {
                    assert!(pi == kwl && shadow::tok_n() == pre.tok_n && lx.errors.len() == pre.err_n, "C11: otherwise nothing is consumed or emitted");
                } else {
                    assert!(shadow::tok_n() == pre.tok_n + 3, "C10: a datalines start is followed by its data token and its terminator");
                    let (a, b, c) = (shadow::tok(pre.tok_n), shadow::tok(pre.tok_n + 1), shadow::tok(pre.tok_n + 2));
                    assert!(a.token_type == TokenType::DatalinesStart && b.token_type == TokenType::DatalinesData && c.token_type == TokenType::SEMI, "C10: start, data, terminator");
                    assert!(a.channel == TokenChannel::DEFAULT && b.channel == TokenChannel::DEFAULT && c.channel == TokenChannel::DEFAULT, "C06: on the default channel");
                    assert!(a.byte_offset.get() as usize == t.byte_at(0) && t.idx_of(b.byte_offset.get() as usize) == Some(j + 1), "C06/C11: the start token runs from the keyword through the statement's ';'");
                    let mut end = t.n;
                    let mut found = false;
                    let mut i = 0;
                    while i < $k {
                        if i > j && !found && i < t.n && t.ch[i] == ';' {
                            if !$four || (i + 3 < t.n && t.ch[i + 1] == ';' && t.ch[i + 2] == ';' && t.ch[i + 3] == ';') {
                                end = i;
                                found = true;
                            }
                        }
                        i += 1;
                    }
                    assert!(t.idx_of(c.byte_offset.get() as usize) == Some(end), "C06/C11: the data token ends at the first terminator");
                    let tl = if found { if $four { 4 } else { 1 } } else { 0 };
                    assert!(pi == end + tl, "C06: the terminator token consists of the terminator characters only");
                    assert!(lx.errors.len() == pre.err_n + (!found) as usize, "C09: an unterminated block is reported once");
                    if !found {
                        assert!(lx.errors[pre.err_n].error_kind() == ErrorKind::UnterminatedDatalines && lx.errors[pre.err_n].at_byte_offset() as usize == t.len, "C09: at the end of input");
                    }
                }
                assert!(lx.mode_stack.len() == pre.stack_len && lx.checkpoint.is_none());
                kani::cover!(is_dl && j > kwl && t.ch[kwl] == '\u{a0}', "Unicode blank between keyword and ';'");
                kani::cover!(is_dl && found_any(&t, j), "terminated block");
                kani::cover!(is_dl && prev == 0);
                kani::cover!($k < 8 || (is_dl && pi == t.n && t.ch[t.n - 1] == ';' && t.n >= j + 3), "data then terminator");
                kani::cover!($k < 2 || t.ch[0] == '\u{b}' || (is_dl && pi == t.n && t.ch[t.n - 1] != ';'), "unterminated block");
                kani::cover!(t.ch[0] == ';' || (!is_dl && prev == 1));
                std::mem::forget(lx);
            }
        }
    };
}
lx_datalines_direct_harness!(7, 32, 9, lx_datalines_direct_k2, false, &['c', 'A', 'r', 'd', 's']);

// =============================================================================================
// The four macro-text dispatchers as classifiers (C01 progress, C04 line feeds consumed by the
// dispatcher itself, C06 symbol tokens, C13 delimiter conditions at any depth): the first character is
// symbolic, every sub-lexer is a recording stand-in (its own behaviour has its own harness). The text
// scanner stand-in records where the cursor stood when it was called.

pub(crate) static mut SCAN_AT: u32 = 0;
pub(crate) static mut SCAN_PNL: u32 = 0;
pub(crate) static mut SCAN_B: bool = false;
pub(crate) static mut MCALL_ANS: u8 = 0;

impl<'src> Lexer<'src> {
    fn cls_scan(&mut self, id: u8) {
        unsafe {
            WHICH = id;
            SCAN_AT = self.cur_byte_offset().get();
        }
        if self.cur_byte_offset() == self.cur_token_byte_offset {
            self.pre_advance();
        }
        self.emit_token(TokenChannel::DEFAULT, TokenType::MacroString, Payload::None);
    }
    pub(crate) fn cls_scan_unrestricted(&mut self) {
        self.cls_scan(20);
    }
    pub(crate) fn cls_scan_stat_opts(&mut self) {
        self.cls_scan(21);
    }
    pub(crate) fn cls_scan_arg_value(&mut self, _f: MacroArgNameValueFlags, pnl: u32) {
        unsafe {
            SCAN_PNL = pnl;
        }
        self.cls_scan(22);
    }
    pub(crate) fn cls_scan_str_call(&mut self, mask: bool, pnl: u32) {
        unsafe {
            SCAN_PNL = pnl;
            SCAN_B = mask;
        }
        self.cls_scan(23);
    }
    /// lex_macro_call stand-in with a harness-chosen outcome
    pub(crate) fn cls_macro_call(&mut self, allow_quote: bool, allow_stat: bool) -> MacroKwType {
        unsafe {
            WHICH = 11;
            WHICH_ARG = allow_quote && !allow_stat;
        }
        match unsafe { MCALL_ANS } {
            0 => MacroKwType::None,
            1 => MacroKwType::MacroStat,
            _ => {
                self.pre_advance();
                self.pre_advance();
                self.emit_token(TokenChannel::DEFAULT, TokenType::MacroIdentifier, Payload::None);
                MacroKwType::MacroCall
            }
        }
    }
    /// lex_macro_var_expr stand-in: true on a macro trigger (as the real one, see lx_macro_var_expr_*)
    pub(crate) fn cls_mvar_det(&mut self) -> bool {
        let r = unsafe { WHICH_ARG };
        if r {
            self.cls_emit(5, TokenChannel::DEFAULT, TokenType::MacroVarResolve);
        } else {
            unsafe {
                WHICH = 5;
            }
        }
        r
    }
}

/// what a text dispatcher must do with the first character
#[derive(Clone, Copy, PartialEq)]
pub(crate) enum Act {
    /// run sub-lexer `id` from the token start
    Sub(u8),
    /// consume `n` chars (the dispatcher's own advance / ampersand run), then run the text scanner
    Scan(usize),
    /// emit a one-char symbol token
    Sym(TokenType),
    /// pop the mode, consume nothing
    Pop,
    /// macro call look-ahead decides (outcome chosen by the harness)
    MacroCall,
    /// the terminating comma of an argument (checked separately)
    Comma,
}

pub(crate) fn amp_run<const K: usize, const B: usize>(t: &Txt<K, B>) -> usize {
    let mut e = 0;
    let mut i = 0;
    while i < K {
        if e == i && i < t.n && t.ch[i] == '&' {
            e = i + 1;
        }
        i += 1;
    }
    e
}

macro_rules! lx_text_dispatch_classifier {
    ($name:ident, $scan_id:literal, |$p:ident, $a:ident, $b:ident| $modes:expr, |$lx:ident, $c:ident| $call:expr, |$t:ident, $c2:ident, $nx:ident, $p2:ident, $a2:ident, $b2:ident, $amp:ident| $act:expr) => {
        lx_harness! {
            #[kani::unwind(6)]
            #[kani::stub(Lexer::lex_ws, Lexer::cls_ws)]
            #[kani::stub(Lexer::lex_single_quoted_str, Lexer::cls_squote)]
            #[kani::stub(Lexer::lex_string_expression_start, Lexer::cls_dquote)]
            #[kani::stub(Lexer::lex_cstyle_comment, Lexer::cls_comment)]
            #[kani::stub(Lexer::lex_macro_var_expr, Lexer::cls_mvar_det)]
            #[kani::stub(Lexer::lex_macro_comment, Lexer::cls_mcomment)]
            #[kani::stub(Lexer::lex_macro_identifier, Lexer::cls_mident)]
            #[kani::stub(Lexer::lex_macro_call, Lexer::cls_macro_call)]
            #[kani::stub(Lexer::lex_macro_string_unrestricted, Lexer::cls_scan_unrestricted)]
            #[kani::stub(Lexer::lex_macro_string_stat_opts, Lexer::cls_scan_stat_opts)]
            #[kani::stub(Lexer::lex_macro_string_in_macro_call_arg_value, Lexer::cls_scan_arg_value)]
            #[kani::stub(Lexer::lex_macro_string_in_str_call, Lexer::cls_scan_str_call)]
            fn $name() {
                let $t = Txt::<4, 20>::any(PFX, &[]);
                kani::assume($t.n >= 1);
                let $c2 = $t.ch[0];
                let $nx = ch_at(&$t, 1);
                let $p: u32 = kani::any();
                kani::assume($p < u32::MAX - 8);
                let $a = any_arg_flags();
                let $b: bool = kani::any();
                let ($p2, $a2, $b2) = ($p, $a, $b);
                let $amp = ref_macro_amp(&$t, 0).0;
                let mcall: u8 = kani::any();
                kani::assume(mcall < 3);
                unsafe {
                    WHICH = 0;
                    WHICH_ARG = $amp;
                    MCALL_ANS = mcall;
                    SCAN_AT = 0;
                }
                let act: Act = $act;
                let t = $t;
                let modes = $modes;
                let mut $lx = setup(&t, &modes);
                shadow::preload_token(shadow::mk_token(TokenChannel::DEFAULT, TokenType::LPAREN, 1, 1, 0, Payload::None));
                let pre = snapshot(&$lx, &t);
                let $c = $c2;
                $call;
                let lx = $lx;
                let pi = check_common(&lx, &t, &pre);
                check_progress::<4, 20, 3>(&lx, &t, &pre, pi);
                let (w, scan_at) = unsafe { (WHICH, SCAN_AT) };
                let tn = shadow::tok_n();
                let n = lx.mode_stack.len();
                assert!(lx.errors.len() == pre.err_n && lx.checkpoint.is_none(), "C01: a text dispatcher reports nothing itself");
                if tn > pre.tok_n {
                    assert!(shadow::tok(pre.tok_n).byte_offset.get() as usize == t.byte_at(pre.pi), "C02: the token starts at the dispatched character (chars consumed by the dispatcher belong to it)");
                }
                match act {
                    Act::Sub(id) => {
                        assert!(w == id && tn == pre.tok_n + 1 && n == pre.stack_len, "C06/C13: quotes, comments, blanks and macro triggers inside macro text are lexed by their own sub-lexers");
                    }
                    Act::Scan(k) => {
                        assert!(w == $scan_id && scan_at as usize == t.byte_at(pre.pi + k) && tn == pre.tok_n + 1 && n == pre.stack_len, "C06/C04: text is lexed by the mode's own scanner, after exactly the characters the dispatcher consumed");
                        if $scan_id >= 22 {
                            assert!(unsafe { SCAN_PNL } == $p2, "C13: the scanner receives the depth carried in the mode");
                        }
                    }
                    Act::Sym(tt) => {
                        assert!(w == 0 && tn == pre.tok_n + 1 && pi == pre.pi + 1 && shadow::tok(pre.tok_n).token_type == tt && shadow::tok(pre.tok_n).channel == TokenChannel::DEFAULT && n == pre.stack_len, "C06: one-character symbol token");
                    }
                    Act::Pop => {
                        assert!(w == 0 && tn == pre.tok_n && pi == pre.pi && n == pre.stack_len - 1, "C13/C14: a terminator at depth 0 ends the text mode unconsumed");
                    }
                    Act::MacroCall => {
                        if mcall == 0 {
                            assert!(w == $scan_id && scan_at as usize == t.byte_at(pre.pi + 1) && tn == pre.tok_n + 1 && n == pre.stack_len, "C06: a percent sign that starts nothing is text");
                        } else if mcall == 1 {
                            assert!(w == 11 && tn == pre.tok_n && pi == pre.pi && n == pre.stack_len - 1, "C14: a macro statement keyword ends the text mode unconsumed");
                        } else {
                            assert!(w == 11 && tn == pre.tok_n + 1 && n == pre.stack_len, "C13: a macro call inside macro text");
                        }
                        assert!(unsafe { WHICH_ARG }, "C09/C13: quoting calls are allowed and statements are not allowed to follow inside statement text");
                    }
                    Act::Comma => {
                        assert!(w == 0 && n + 1 >= pre.stack_len, "C13: top-level comma");
                        if $a2.populate_next_arg_stack() {
                            assert!(tn == pre.tok_n + 1 && pi == pre.pi + 1 && shadow::tok(pre.tok_n).token_type == TokenType::COMMA && n == pre.stack_len + 1 && lx.mode_stack[n - 1] == LexerMode::WsOrCStyleCommentOnly, "C13: a top-level comma is a delimiter token and prepares the next argument");
                        } else {
                            assert!(tn == pre.tok_n && pi == pre.pi && n == pre.stack_len - 1, "C13: the comma is left to the expectation below");
                        }
                    }
                }
                kani::cover!($scan_id == 21 || (act == Act::Scan(1) && $c2 == '\n'), "line feed consumed by the dispatcher");
                kani::cover!(matches!(act, Act::Scan(k) if k >= 2), "ampersand run consumed by the dispatcher");
                kani::cover!(act == Act::Pop);
                kani::cover!(act == Act::MacroCall && mcall == 2 || $scan_id >= 22);
                kani::cover!(matches!(act, Act::Sub(5)));
                std::mem::forget(lx);
            }
        }
    };
}

lx_text_dispatch_classifier!(lx_semi_text_classifier, 20,
    |p, a, b| [LexerMode::Default, LexerMode::ExpectSemiOrEOF, LexerMode::MacroSemiTerminatedTextExpr],
    |lx, c| lx.dispatch_macro_semi_term_text_expr(c),
    |t, c, nx, p, a, b, amp| match c {
        '\'' => Act::Sub(2),
        '"' => Act::Sub(3),
        '/' => if nx == Some('*') { Act::Sub(4) } else { Act::Scan(1) },
        '&' => if amp { Act::Sub(5) } else { Act::Scan(amp_run(&t)) },
        '%' => Act::MacroCall,
        ';' => Act::Pop,
        _ => Act::Scan(1),
    });

lx_text_dispatch_classifier!(lx_stat_opts_classifier, 21,
    |p, a, b| [LexerMode::Default, LexerMode::ExpectSemiOrEOF, LexerMode::MacroStatOptionsTextExpr],
    |lx, c| lx.dispatch_macro_stat_opts_text_expr(c),
    |t, c, nx, p, a, b, amp| match c {
        '\'' => Act::Sub(2),
        '"' => Act::Sub(3),
        '/' => if nx == Some('*') { Act::Sub(4) } else { Act::Sym(TokenType::FSLASH) },
        '&' => if amp { Act::Sub(5) } else { Act::Scan(amp_run(&t)) },
        '%' => Act::MacroCall,
        ';' => Act::Pop,
        '=' => Act::Sym(TokenType::ASSIGN),
        c if c.is_whitespace() => Act::Sub(1),
        _ => Act::Scan(1),
    });

lx_text_dispatch_classifier!(lx_arg_value_classifier, 22,
    |p, a, b| [LexerMode::Default, LexerMode::ExpectSymbol(TokenType::RPAREN, TokenChannel::DEFAULT), LexerMode::MacroCallValue { flags: a, pnl: p }],
    |lx, c| lx.dispatch_macro_call_arg_value(c, a, p),
    |t, c, nx, p, a, b, amp| match c {
        '\'' => Act::Sub(2),
        '"' => Act::Sub(3),
        '/' => if nx == Some('*') { Act::Sub(4) } else { Act::Scan(1) },
        '&' => if amp { Act::Sub(5) } else { Act::Scan(amp_run(&t)) },
        '%' => if nx == Some('*') { Act::Sub(6) } else if nx.map_or(false, ref_name_start) { Act::Sub(7) } else { Act::Scan(1) },
        '\n' => Act::Scan(1),
        ',' if p == 0 && a.terminate_on_comma() => Act::Comma,
        ')' if p == 0 => Act::Pop,
        _ => Act::Scan(0),
    });

lx_text_dispatch_classifier!(lx_str_call_classifier, 23,
    |p, a, b| [LexerMode::Default, LexerMode::ExpectSymbol(TokenType::RPAREN, TokenChannel::HIDDEN), LexerMode::MacroStrQuotedExpr { mask_macro: b, pnl: p }],
    |lx, c| lx.dispatch_macro_str_quoted_expr(c, b, p),
    |t, c, nx, p, a, b, amp| match c {
        '\'' => Act::Sub(2),
        '"' => Act::Sub(3),
        '/' => if nx == Some('*') { Act::Sub(4) } else { Act::Scan(1) },
        '&' if !b => if amp { Act::Sub(5) } else { Act::Scan(amp_run(&t)) },
        '%' if !b => if matches!(nx, Some('"' | '\'' | '%' | '(' | ')')) { Act::Scan(0) } else if nx.map_or(false, ref_name_start) { Act::Sub(7) } else { Act::Scan(1) },
        '\n' => Act::Scan(1),
        ')' if p == 0 => Act::Pop,
        _ => Act::Scan(0),
    });


// the two small closers of a double-quoted string, called directly (cheap; C07: the payload computed by the
// text scanner is what the closing token carries; C10: every start is closed; C16: suffix letter case)
lx_harness! {
    #[kani::unwind(7)]
    fn lx_unterminated_str_direct() {
        let t = Txt::<1, 8>::any(PFX, &[]);
        kani::assume(t.n == 0);
        let mut lx = setup(&t, &[LexerMode::Default, LexerMode::StringExpr { allow_stat: kani::any() }]);
        shadow::preload_token(shadow::mk_token(TokenChannel::DEFAULT, TokenType::StringExprStart, 1, 1, 0, Payload::None));
        let more: bool = kani::any();
        let more_ch = any_channel();
        if more {
            shadow::preload_token(shadow::mk_token(more_ch, if more_ch == TokenChannel::DEFAULT { TokenType::MacroVarTerm } else { TokenType::WS }, 2, 1, 0, Payload::None));
        }
        let has_payload: bool = kani::any();
        let (a, b): (u32, u32) = (kani::any(), kani::any());
        let payload = if has_payload { Payload::StringLiteral(a, b) } else { Payload::None };
        let same = |p: Payload| match p {
            Payload::None => !has_payload,
            Payload::StringLiteral(x, y) => has_payload && x == a && y == b,
            _ => false,
        };
        let pre = snapshot(&lx, &t);
        lx.start_token();
        lx.handle_unterminated_str_expr(payload);
        let _pi = check_common(&lx, &t, &pre);
        assert!(lx.mode_stack.len() == pre.stack_len - 1, "C10: the open string expression is closed at end of input");
        assert!(lx.errors.len() == pre.err_n + 1 && lx.errors[pre.err_n].error_kind() == ErrorKind::UnterminatedStringLiteral, "C10: and reported once");
        if more {
            assert!(shadow::tok_n() == pre.tok_n + 1, "C10: a string expression with content gets an end token");
            let e = shadow::tok(pre.tok_n);
            assert!(e.token_type == TokenType::StringExprEnd && e.channel == TokenChannel::DEFAULT && e.byte_offset.get() as usize == t.len, "C10/C06: virtual end token at the end of input");
            assert!(same(e.payload), "C07: the unquoted value of the trailing text is carried by the end token");
            assert!(shadow::tok(0).token_type == TokenType::StringExprStart && shadow::tok(1).channel == more_ch, "C10: earlier tokens keep their type and channel");
        } else {
            assert!(shadow::tok_n() == pre.tok_n, "C10: a plain unterminated literal is the retyped start token");
            let l = shadow::tok(0);
            assert!(l.token_type == TokenType::StringLiteral && l.channel == TokenChannel::DEFAULT && same(l.payload), "C10/C07: the start token becomes the literal and carries the unquoted value");
        }
        kani::cover!(more && has_payload && more_ch == TokenChannel::HIDDEN);
        kani::cover!(!more && has_payload);
        std::mem::forget(lx);
    }
}

lx_harness! {
    #[kani::unwind(7)]
    fn lx_double_quoted_literal_direct() {
        let t = Txt::<3, 16>::any(PFX, &['"']);
        let mut lx = setup(&t, &[LexerMode::Default, LexerMode::StringExpr { allow_stat: kani::any() }]);
        // the start token (one byte before the prefix end keeps offsets ordered), the token start mark just after it
        shadow::preload_token(shadow::mk_token(TokenChannel::DEFAULT, TokenType::StringExprStart, 1, 1, 0, Payload::None));
        let has_payload: bool = kani::any();
        let (a, b): (u32, u32) = (kani::any(), kani::any());
        let payload = if has_payload { Payload::StringLiteral(a, b) } else { Payload::None };
        let pre = snapshot(&lx, &t);
        lx.start_token();
        lx.lex_double_quoted_literal(payload);
        let pi = check_common(&lx, &t, &pre);
        let (tt, sl) = ref_suffix(&t, 1);
        assert!(pi == 1 + sl && shadow::tok_n() == pre.tok_n && lx.mode_stack.len() == pre.stack_len - 1, "C06/C10/C11: the literal ends after its closing quote and suffix; the string mode is closed");
        let l = shadow::tok(0);
        assert!(l.token_type == tt && l.channel == TokenChannel::DEFAULT, "C06/C16: the start token becomes the literal of the type its suffix names (any letter case)");
        let same = match l.payload {
            Payload::None => !has_payload,
            Payload::StringLiteral(x, y) => has_payload && x == a && y == b,
            _ => false,
        };
        if tt == TokenType::HexStringLiteral && lx.errors.len() == pre.err_n {
            assert!(matches!(l.payload, Payload::StringLiteral(..)), "C07: decoded hex literal carries a payload");
        } else {
            assert!(same, "C07: the literal carries the unquoted value computed by the text scanner");
            assert!(lx.errors.len() == pre.err_n + (tt == TokenType::HexStringLiteral) as usize, "C07: only an invalid hex literal is reported");
        }
        kani::cover!(tt == TokenType::DateTimeLiteral && has_payload);
        kani::cover!(tt == TokenType::HexStringLiteral && lx.errors.len() == pre.err_n + 1);
        kani::cover!(tt == TokenType::StringLiteral && t.n == 3);
        std::mem::forget(lx);
    }
}


// Datalines with the keyword inside the constant prefix: only the followers are symbolic, so the unwind
// bound (and with it every scanning loop of lex_datalines) stays small.
pub(crate) fn setup_after_cards<'a, const K: usize, const B: usize>(t: &'a Txt<K, B>, four: bool) -> Lexer<'a> {
    let src = t.as_str();
    shadow::reset(src.len());
    shadow::set_source(src);
    let buffer = WorkTokenizedBuffer::verif_new(src.len(), 4);
    let cursor = cursor::Cursor::new(src);
    let mut mode_stack = Vec::with_capacity(MODE_CAP);
    mode_stack.push(LexerMode::Default);
    let mut lx = Lexer {
        source: src,
        source_len: src.len() as u32,
        buffer,
        cursor,
        cur_token_byte_offset: ByteOffset::new(0),
        cur_token_start: CharOffset::new(0),
        cur_token_line: super::buffer::verif::line_idx(0),
        #[cfg(debug_assertions)]
        last_state: (src.len() as u32, Vec::new()),
        mode_stack,
        errors: Vec::with_capacity(ERR_CAP),
        checkpoint: None,
        macro_nesting_level: 0,
        pending_stat_stack: BitVec::from_elem(1, false),
    };
    lx.buffer.add_line(ByteOffset::new(0), CharOffset::new(0));
    lx.cursor.advance();
    lx.cursor.advance();
    lx.add_line();
    // the identifier scanner starts the token at the keyword and consumes it
    lx.start_token();
    lx.cursor.advance();
    lx.cursor.advance();
    lx.cursor.advance();
    lx.cursor.advance();
    lx.cursor.advance();
    if four {
        lx.cursor.advance();
    }
    lx
}

macro_rules! lx_datalines_pfx_harness {
    ($k:literal, $b:literal, $uw:literal, $name:ident, $gen:ident) => {
        lx_datalines_pfx_harness!($k, $b, $uw, $name, false, $gen, );
    };
    ($k:literal, $b:literal, $uw:literal, $name:ident, $gen:ident, $arg:expr) => {
        lx_datalines_pfx_harness!($k, $b, $uw, $name, false, $gen, $arg);
    };
    ($k:literal, $b:literal, $uw:literal, $name:ident, $four:literal, $gen:ident, $($arg:expr)?) => {
        lx_harness! {
            #[kani::unwind($uw)]
            fn $name() {
                let t = Txt::<$k, $b>::$gen($($arg)?);
                let mut lx = setup_after_cards(&t, $four);
                let prev: u8 = kani::any();
                kani::assume(prev < 3);
                if prev == 1 {
                    shadow::preload_token(shadow::mk_token(TokenChannel::DEFAULT, TokenType::SEMI, 1, 1, 0, Payload::None));
                } else if prev == 2 {
                    shadow::preload_token(shadow::mk_token(TokenChannel::DEFAULT, TokenType::Identifier, 1, 1, 0, Payload::None));
                }
                if prev != 0 && kani::any() {
                    shadow::preload_token(shadow::mk_token(TokenChannel::HIDDEN, TokenType::WS, 2, 1, 0, Payload::None));
                }
                let pre = snapshot(&lx, &t);
                let r = lx.lex_datalines($four);
                // the start token begins at the keyword, inside the constant prefix: it is checked below, the
                // common checker looks at the tokens after it
                let pre_c = Pre { tok_n: pre.tok_n + r as usize, ..pre };
                let pi = check_common(&lx, &t, &pre_c);
                // reference: blanks then ';' right after the keyword, at statement start
                let mut j = 0;
                let mut i = 0;
                while i < $k {
                    if i == j && i < t.n && t.ch[i].is_whitespace() {
                        j += 1;
                    }
                    i += 1;
                }
                let is_dl = prev != 2 && j < t.n && t.ch[j] == ';';
                assert!(r == is_dl, "C11/C15/C17: a datalines block starts with its keyword at statement start (nothing, or a ';', before it - wherever in the text that is), followed by blanks and ';'");
                if !is_dl {
                    assert!(pi == 0 && shadow::tok_n() == pre.tok_n && lx.errors.len() == pre.err_n, "C11: otherwise nothing is consumed or emitted");
                } else {
                    assert!(shadow::tok_n() == pre.tok_n + 3, "C10: a datalines start is followed by its data token and its terminator");
                    let (a, b, c) = (shadow::tok(pre.tok_n), shadow::tok(pre.tok_n + 1), shadow::tok(pre.tok_n + 2));
                    assert!(a.token_type == TokenType::DatalinesStart && b.token_type == TokenType::DatalinesData && c.token_type == TokenType::SEMI, "C10: start, data, terminator");
                    assert!(a.channel == TokenChannel::DEFAULT && b.channel == TokenChannel::DEFAULT && c.channel == TokenChannel::DEFAULT, "C06: on the default channel");
                    assert!(a.byte_offset.get() == 3 && a.start.get() == 2 && super::buffer::verif::line_idx_get(a.line) == 1 && t.idx_of(b.byte_offset.get() as usize) == Some(j + 1), "C06/C11/C02: the start token runs from the keyword through the statement's ';'");
                    let mut end = t.n;
                    let mut found = false;
                    let mut i = 0;
                    while i < $k {
                        if i > j && !found && i < t.n && t.ch[i] == ';' {
                            if !$four || (i + 3 < t.n && t.ch[i + 1] == ';' && t.ch[i + 2] == ';' && t.ch[i + 3] == ';') {
                                end = i;
                                found = true;
                            }
                        }
                        i += 1;
                    }
                    assert!(t.idx_of(c.byte_offset.get() as usize) == Some(end), "C06/C11: the data token ends at the first terminator");
                    assert!(pi == end + if found { if $four { 4 } else { 1 } } else { 0 }, "C06: the terminator token consists of the terminator characters only");
                    assert!(lx.errors.len() == pre.err_n + (!found) as usize, "C09: an unterminated block is reported once");
                    if !found {
                        assert!(lx.errors[pre.err_n].error_kind() == ErrorKind::UnterminatedDatalines && lx.errors[pre.err_n].at_byte_offset() as usize == t.len, "C09: at the end of input");
                    }
                }
                assert!(lx.mode_stack.len() == pre.stack_len && lx.checkpoint.is_none());
                kani::cover!($k < 2 || t.ch[0] == ';' || (is_dl && j > 0 && (t.ch[0] == '\u{a0}' || t.ch[0] == '\u{b}')), "non-ASCII-whitespace blank between keyword and ';'");
                kani::cover!(is_dl && prev == 0);
                kani::cover!($k < 3 || $four || (is_dl && pi == t.n && t.ch[t.n - 1] == ';' && t.n >= j + 3), "data then terminator");
                kani::cover!($k < 2 || t.ch[0] == '\u{b}' || (is_dl && pi == t.n && t.ch[t.n - 1] != ';'), "unterminated block");
                kani::cover!(t.ch[0] == ';' || (!is_dl && prev == 1));
                std::mem::forget(lx);
            }
        }
    };
}
lx_datalines_pfx_harness!(3, 24, 6, lx_datalines_pfx_k3, any_after_cards);
// exactly n ASCII followers: all byte positions constant
lx_datalines_pfx_harness!(1, 12, 6, lx_datalines_ascii_n1, ascii_after_cards);
// a vertical tab (whitespace, but not ASCII whitespace) between the keyword and one symbolic character
lx_datalines_pfx_harness!(2, 12, 6, lx_datalines_ascii_vt_n2, ascii_after_cards_fixed, &['\u{b}']);
// the statement's ';' constant, then data / terminator characters symbolic
lx_datalines_pfx_harness!(2, 12, 6, lx_datalines_ascii_semi_n2, ascii_after_cards_fixed, &[';']);
lx_datalines_pfx_harness!(3, 12, 6, lx_datalines_ascii_semi_n3, ascii_after_cards_fixed, &[';']);
lx_datalines_pfx_harness!(4, 12, 6, lx_datalines_ascii_semi_n4, ascii_after_cards_fixed, &[';']);
// datalines4: ';' constant, then data / ';;;;' terminator characters
lx_datalines_pfx_harness!(3, 16, 8, lx_datalines4_ascii_semi_n3, true, ascii_after_cards4_fixed, &[';']);
lx_datalines_pfx_harness!(6, 16, 8, lx_datalines4_ascii_semi_n6, true, ascii_after_cards4_fixed, &[';']);

// =============================================================================================
// Plumbing: token start marks, tokens emitted at the current start / at a saved mark, error records
// (C02/C03/C04/C09): every record is the cursor snapshot (byte, char, line of the position it was taken at).
lx_harness! {
    #[kani::unwind(5)]
    fn lx_plumbing_marks() {
        let t = Txt::<3, 16>::any(PFX, &[]);
        kani::assume(t.n == 3);
        let mut lx = setup(&t, &[LexerMode::Default]);
        let pre = snapshot(&lx, &t);
        // a token starts here; one char is consumed, a mark is taken, another char is consumed
        lx.start_token();
        lx.pre_advance();
        let mark = lx.mark_token_start();
        lx.pre_advance();
        assert!(mark.0.get() as usize == t.byte_at(1) && mark.1.get() == t.char_at(1), "C02/C03: a saved mark is the cursor position");
        assert!(super::buffer::verif::line_idx_get(mark.2) == t.pre_nl + t.nl_upto(1), "C04: a saved mark carries the line of its own position (not that of the pending token)");
        assert!(lx.cur_token_byte_offset.get() as usize == t.byte_at(0) && lx.cur_token_start.get() == t.char_at(0) && super::buffer::verif::line_idx_get(lx.cur_token_line) == t.pre_nl, "C02/C03/C04: taking a mark leaves the pending token start alone");
        // the pending token, then a token at the mark (as the eval-expression scanner does for trailing blanks)
        lx.emit_token(TokenChannel::DEFAULT, TokenType::MacroString, Payload::None);
        lx.emit_token_at_mark(TokenChannel::HIDDEN, TokenType::WS, Payload::None, mark);
        let third: bool = kani::any();
        if third {
            lx.start_token();
            lx.pre_advance();
            lx.emit_token(TokenChannel::DEFAULT, TokenType::CatchAll, Payload::None);
        }
        lx.sh_emit_error(ErrorKind::MissingExpectedRParen);
        let pi = check_common(&lx, &t, &pre);
        assert!(pi == 2 + third as usize && shadow::tok_n() == pre.tok_n + 2 + third as usize, "C02: tokens as emitted");
        let (a, b) = (shadow::tok(pre.tok_n), shadow::tok(pre.tok_n + 1));
        assert!(a.byte_offset.get() as usize == t.byte_at(0) && b.byte_offset.get() as usize == t.byte_at(1), "C02: the pending token starts at its start, the marked token at the mark");
        assert!(super::buffer::verif::line_idx_get(b.line) == t.pre_nl + t.nl_upto(1), "C04: a token emitted at a mark is on the mark's line");
        if third {
            let c = shadow::tok(pre.tok_n + 2);
            assert!(c.byte_offset.get() as usize == t.byte_at(2) && super::buffer::verif::line_idx_get(c.line) == t.pre_nl + t.nl_upto(2), "C02/C04: start_token takes the cursor position and its line");
        }
        let e = lx.errors[lx.errors.len() - 1];
        assert!(e.last_token().map(|x| x.get() as usize) == Some(shadow::tok_n() - 1), "C09: an error names the last token emitted before it");
        kani::cover!(t.ch[0] == '\n' && t.ch[1] != '\n' && third, "mark taken on the line after the pending token's line");
        kani::cover!(t.ch[1] == '\n' && t.ch[0].len_utf8() == 3);
        std::mem::forget(lx);
    }
}
