// Harnesses for `Cursor` (C03, C19) and the shared input constructors used by every other
// harness file. Compiled inside `lexer::cursor` under cfg(kani) (see DESIGN.md §7).

/// Arbitrary valid UTF-8 string of at most K code points, built constructively into `buf`
/// (B >= 4*K). Covers exactly the valid UTF-8 strings of <= K chars (any Unicode scalar value).
pub(crate) fn any_str<const K: usize, const B: usize>(buf: &mut [u8; B]) -> &str {
    let nchars: usize = kani::any();
    kani::assume(nchars <= K);
    let mut pos = 0usize;
    let mut i = 0usize;
    while i < K {
        if i < nchars {
            let c: char = kani::any();
            let l = c.encode_utf8(&mut buf[pos..]).len();
            pos += l;
        }
        i += 1;
    }
    unsafe { std::str::from_utf8_unchecked(&buf[..pos]) }
}

/// Like `any_str` but the string starts with the given (possibly symbolic) `first` char, followed by
/// at most K arbitrary chars (B >= 4*(K+1)).
pub(crate) fn any_str_prefixed<const K: usize, const B: usize>(first: char, buf: &mut [u8; B]) -> &str {
    let mut pos = first.encode_utf8(&mut buf[..]).len();
    let nchars: usize = kani::any();
    kani::assume(nchars <= K);
    let mut i = 0usize;
    while i < K {
        if i < nchars {
            let c: char = kani::any();
            let l = c.encode_utf8(&mut buf[pos..]).len();
            pos += l;
        }
        i += 1;
    }
    unsafe { std::str::from_utf8_unchecked(&buf[..pos]) }
}

/// Like `any_str_prefixed` with two leading chars.
pub(crate) fn any_str_prefixed2<const K: usize, const B: usize>(first: char, second: char, buf: &mut [u8; B]) -> &str {
    let mut pos = first.encode_utf8(&mut buf[..]).len();
    pos += second.encode_utf8(&mut buf[pos..]).len();
    let nchars: usize = kani::any();
    kani::assume(nchars <= K);
    let mut i = 0usize;
    while i < K {
        if i < nchars {
            let c: char = kani::any();
            let l = c.encode_utf8(&mut buf[pos..]).len();
            pos += l;
        }
        i += 1;
    }
    unsafe { std::str::from_utf8_unchecked(&buf[..pos]) }
}

/// Number of code points in `s` (reference oracle: an explicit counting loop).
pub(crate) fn count_chars(s: &str) -> u32 {
    let mut cnt = 0u32;
    let mut it = s.chars();
    while it.next().is_some() {
        cnt += 1;
    }
    cnt
}

/// Number of line feeds in `s`.
pub(crate) fn count_nl(s: &str) -> u32 {
    let mut cnt = 0u32;
    let mut it = s.bytes();
    while let Some(b) = it.next() {
        if b == b'\n' {
            cnt += 1;
        }
    }
    cnt
}

/// Byte offset just past the last '\n' in `s` (0 if none).
pub(crate) fn after_last_nl(s: &str) -> usize {
    let mut res = 0usize;
    let mut i = 0usize;
    let b = s.as_bytes();
    while i < b.len() {
        if b[i] == b'\n' {
            res = i + 1;
        }
        i += 1;
    }
    res
}

fn pos_ok(s: &str, c: &Cursor) {
    let consumed = s.len() - c.as_str().len();
    assert!(s.is_char_boundary(consumed), "C03: cursor byte position is not a char boundary");
    assert!(
        c.char_offset() == count_chars(&s[..consumed]),
        "C03: char_offset differs from the number of code points consumed"
    );
    assert!(c.remaining_len() as usize == s.len() - consumed, "C03: remaining_len");
}

macro_rules! cur_harnesses {
    ($k:literal, $b:literal, $uw:literal, $adv:ident, $advby:ident, $eatc:ident, $eatw:ident, $peek:ident) => {
        #[kani::proof]
        #[kani::unwind($uw)]
        fn $adv() {
            let mut buf = [0u8; $b];
            let s = any_str::<$k, $b>(&mut buf);
            let mut c = Cursor::new(s);
            pos_ok(s, &c);
            let steps: usize = kani::any();
            kani::assume(steps <= $k + 1);
            let mut i = 0usize;
            let mut got = 0u32;
            while i < $k + 1 {
                if i < steps {
                    let before = c.as_str();
                    let exp = before.chars().next();
                    let r = c.advance();
                    assert!(r == exp, "C03: advance returns the next char");
                    if r.is_some() {
                        got += 1;
                    }
                    pos_ok(s, &c);
                }
                i += 1;
            }
            assert!(c.char_offset() == got, "C03: char_offset counts successful advances");
            kani::cover!(got == $k as u32 && s.len() == 4 * $k, "all 4-byte chars consumed");
            kani::cover!(steps == $k + 1 && got < steps as u32, "advance at EOF");
        }

        #[kani::proof]
        #[kani::unwind($uw)]
        fn $advby() {
            let mut buf = [0u8; $b];
            let s = any_str::<$k, $b>(&mut buf);
            let mut c = Cursor::new(s);
            // start from an arbitrary split point
            let pre: u32 = kani::any();
            kani::assume(pre <= $k);
            if pre > 0 {
                c.advance_by(pre);
                pos_ok(s, &c);
            }
            let at = s.len() - c.as_str().len();
            let n: u32 = kani::any();
            kani::assume(n >= 1 && n <= $k + 1);
            c.advance_by(n);
            pos_ok(s, &c);
            let consumed = s.len() - c.as_str().len();
            let avail = count_chars(&s[at..]);
            let moved = count_chars(&s[at..consumed]);
            assert!(moved == if n < avail { n } else { avail }, "C03/C19: advance_by(n) moves min(n, remaining) chars");
            kani::cover!(n > avail && avail > 0, "advance_by past EOF");
            kani::cover!(n == avail && n == $k, "advance_by exactly to EOF");
            kani::cover!(moved >= 2 && consumed - at > moved as usize, "multi-byte chars skipped");
        }

        #[kani::proof]
        #[kani::unwind($uw)]
        fn $eatc() {
            let mut buf = [0u8; $b];
            let s = any_str::<$k, $b>(&mut buf);
            let mut c = Cursor::new(s);
            let pre: u32 = kani::any();
            kani::assume(pre <= $k);
            if pre > 0 {
                c.advance_by(pre);
            }
            let x: char = kani::any();
            let before = c.as_str();
            let r = c.eat_char(x);
            pos_ok(s, &c);
            let exp = before.chars().next() == Some(x);
            assert!(r == exp, "C03: eat_char result");
            if r {
                assert!(before.len() - c.as_str().len() == x.len_utf8());
            } else {
                assert!(before.len() == c.as_str().len());
            }
            kani::cover!(r && x.len_utf8() == 3, "ate a 3-byte char (BOM-like)");
            kani::cover!(!r && !before.is_empty());
        }

        #[kani::proof]
        #[kani::unwind($uw)]
        fn $eatw() {
            let mut buf = [0u8; $b];
            let s = any_str::<$k, $b>(&mut buf);
            let mut c = Cursor::new(s);
            let lo: u32 = kani::any();
            let hi: u32 = kani::any();
            c.eat_while(|ch| (ch as u32) >= lo && (ch as u32) <= hi);
            pos_ok(s, &c);
            let consumed = s.len() - c.as_str().len();
            // everything consumed satisfies the predicate, the next char (if any) does not
            let mut it = s[..consumed].chars();
            while let Some(ch) = it.next() {
                assert!((ch as u32) >= lo && (ch as u32) <= hi, "C03: eat_while consumed a non-matching char");
            }
            if let Some(ch) = c.peek() {
                assert!(!((ch as u32) >= lo && (ch as u32) <= hi), "C03: eat_while stopped early");
            }
            kani::cover!(consumed > 0 && consumed < s.len());
            kani::cover!(consumed == s.len() && consumed == 4 * $k);
        }

        #[kani::proof]
        #[kani::unwind($uw)]
        fn $peek() {
            let mut buf = [0u8; $b];
            let s = any_str::<$k, $b>(&mut buf);
            let mut c = Cursor::new(s);
            let pre: u32 = kani::any();
            kani::assume(pre <= $k);
            if pre > 0 {
                c.advance_by(pre);
            }
            let rest = c.as_str();
            let mut it = rest.chars();
            let e0 = it.next();
            let e1 = it.next();
            assert!(c.peek() == e0, "peek");
            assert!(c.peek_next() == e1.unwrap_or(EOF_CHAR), "peek_next");
            let mut it2 = c.chars();
            assert!(it2.next() == e0);
            pos_ok(s, &c);
            // clone is an independent cursor with equal position
            let mut cl = c.clone();
            cl.advance();
            assert!(c.as_str().len() == rest.len(), "clone advance leaves the original");
            assert!(cl.char_offset() == c.char_offset() + if e0.is_some() { 1 } else { 0 });
            kani::cover!(e1.is_some());
            kani::cover!(e0.is_some() && e1.is_none());
        }
    };
}

cur_harnesses!(2, 8, 4, cur_advance_k2, cur_advance_by_k2, cur_eat_char_k2, cur_eat_while_k2, cur_peek_k2);
cur_harnesses!(3, 12, 5, cur_advance_k3, cur_advance_by_k3, cur_eat_char_k3, cur_eat_while_k3, cur_peek_k3);
cur_harnesses!(4, 16, 6, cur_advance_k4, cur_advance_by_k4, cur_eat_char_k4, cur_eat_while_k4, cur_peek_k4);

/// Vacuity twin: the post-state of `advance_by` is reachable under all assumptions
/// (the final assert(false) must FAIL).
#[kani::proof]
#[kani::unwind(4)]
fn twin_cur_advance_by() {
    let mut buf = [0u8; 8];
    let s = any_str::<2, 8>(&mut buf);
    let mut c = Cursor::new(s);
    let n: u32 = kani::any();
    kani::assume(n >= 1 && n <= 3);
    c.advance_by(n);
    assert!(false, "TWIN: reachable");
}

// ---------------------------------------------------------------------------------------------
// `Txt`: symbolic text with its code-point structure known to the harness, so that oracles are
// arithmetic over char indices instead of UTF-8 decoding of symbolic bytes (which CBMC pays for
// dearly). The bytes are still real UTF-8 and are what the code under test decodes.

pub(crate) struct Txt<const K: usize, const B: usize> {
    pub(crate) buf: [u8; B],
    /// total byte length (prefix + symbolic part)
    pub(crate) len: usize,
    /// bytes / chars / line feeds of the constant prefix
    pub(crate) pre_b: usize,
    pub(crate) pre_c: u32,
    pub(crate) pre_nl: u32,
    /// byte offset / char offset of the start of the last prefix line
    pub(crate) pre_line_b: usize,
    pub(crate) pre_line_c: u32,
    /// number of symbolic chars (<= K), the chars, and the absolute byte offset where each starts
    pub(crate) n: usize,
    pub(crate) ch: [char; K],
    pub(crate) start: [usize; K],
}

impl<const K: usize, const B: usize> Txt<K, B> {
    /// `prefix` must be a constant; `fixed` are constant leading chars of the symbolic part
    /// (focus of a harness instance), followed by up to K - fixed.len() arbitrary chars.
    pub(crate) fn any(prefix: &str, fixed: &[char]) -> Self {
        let mut buf = [0u8; B];
        let pb = prefix.as_bytes();
        let mut i = 0;
        while i < pb.len() {
            buf[i] = pb[i];
            i += 1;
        }
        let pre_b = pb.len();
        let mut pre_c = 0u32;
        let mut pre_nl = 0u32;
        let mut pre_line_b = 0usize;
        let mut pre_line_c = 0u32;
        let mut it = prefix.char_indices();
        while let Some((o, c)) = it.next() {
            pre_c += 1;
            if c == '\n' {
                pre_nl += 1;
                pre_line_b = o + 1;
                pre_line_c = pre_c;
            }
        }
        let extra: usize = kani::any();
        kani::assume(extra <= K - fixed.len());
        let n = fixed.len() + extra;
        let mut ch = ['\0'; K];
        let mut start = [0usize; K];
        let mut pos = pre_b;
        let mut i = 0;
        while i < K {
            if i < n {
                let c: char = if i < fixed.len() { fixed[i] } else { kani::any() };
                ch[i] = c;
                start[i] = pos;
                pos += c.encode_utf8(&mut buf[pos..]).len();
            }
            i += 1;
        }
        Txt { buf, len: pos, pre_b, pre_c, pre_nl, pre_line_b, pre_line_c, n, ch, start }
    }

    /// Like `any` with the constant prefix "é\ncArds" (8 bytes, 7 chars, one line feed), written without loops so
    /// that the harness's global unwind bound is not raised by the prefix length.
    pub(crate) fn any_after_cards() -> Self {
        let mut buf = [0u8; B];
        let pfx: [u8; 8] = [0xc3, 0xa9, b'\n', b'c', b'A', b'r', b'd', b's'];
        buf[0] = pfx[0];
        buf[1] = pfx[1];
        buf[2] = pfx[2];
        buf[3] = pfx[3];
        buf[4] = pfx[4];
        buf[5] = pfx[5];
        buf[6] = pfx[6];
        buf[7] = pfx[7];
        let n: usize = kani::any();
        kani::assume(n <= K);
        let mut ch = ['\0'; K];
        let mut start = [0usize; K];
        let mut pos = 8usize;
        let mut i = 0;
        while i < K {
            if i < n {
                let c: char = kani::any();
                ch[i] = c;
                start[i] = pos;
                pos += c.encode_utf8(&mut buf[pos..]).len();
            }
            i += 1;
        }
        Txt { buf, len: pos, pre_b: 8, pre_c: 7, pre_nl: 1, pre_line_b: 3, pre_line_c: 2, n, ch, start }
    }

    /// Constant prefix "é\ncArds" followed by exactly K symbolic ASCII characters: every byte position is a
    /// constant, only the contents are symbolic (keeps offset arithmetic out of the solver).
    pub(crate) fn ascii_after_cards() -> Self {
        Self::ascii_after_cards_fixed(&[])
    }

    /// Constant prefix "é\ncArds4" (9 bytes, 8 chars), then constant leading characters and symbolic ASCII ones.
    pub(crate) fn ascii_after_cards4_fixed(fixed: &[char]) -> Self {
        let mut t = Self::ascii_after_cards_fixed(&[]);
        // shift the symbolic part by one byte and put the '4' in front of it
        let mut buf = [0u8; B];
        buf[0] = 0xc3;
        buf[1] = 0xa9;
        buf[2] = b'\n';
        buf[3] = b'c';
        buf[4] = b'A';
        buf[5] = b'r';
        buf[6] = b'd';
        buf[7] = b's';
        buf[8] = b'4';
        let mut i = 0;
        while i < K {
            let b: u8 = if i < fixed.len() { fixed[i] as u8 } else { t.buf[8 + i] };
            buf[9 + i] = b;
            t.ch[i] = b as char;
            t.start[i] = 9 + i;
            i += 1;
        }
        t.buf = buf;
        t.len = 9 + K;
        t.pre_b = 9;
        t.pre_c = 8;
        t
    }

    /// As `ascii_after_cards`, with constant leading characters (ASCII) of the symbolic part.
    pub(crate) fn ascii_after_cards_fixed(fixed: &[char]) -> Self {
        let mut buf = [0u8; B];
        buf[0] = 0xc3;
        buf[1] = 0xa9;
        buf[2] = b'\n';
        buf[3] = b'c';
        buf[4] = b'A';
        buf[5] = b'r';
        buf[6] = b'd';
        buf[7] = b's';
        let mut ch = ['\0'; K];
        let mut start = [0usize; K];
        let mut i = 0;
        while i < K {
            let b: u8 = if i < fixed.len() { fixed[i] as u8 } else { kani::any() };
            kani::assume(b < 0x80);
            buf[8 + i] = b;
            ch[i] = b as char;
            start[i] = 8 + i;
            i += 1;
        }
        Txt { buf, len: 8 + K, pre_b: 8, pre_c: 7, pre_nl: 1, pre_line_b: 3, pre_line_c: 2, n: K, ch, start }
    }

    /// Constant prefix "é\n" followed by exactly K symbolic ASCII characters: every byte position is a constant.
    pub(crate) fn ascii_exact() -> Self {
        Self::ascii_exact_fixed(&[])
    }

    /// As `ascii_exact`, with constant leading characters (ASCII) of the symbolic part.
    pub(crate) fn ascii_exact_fixed(fixed: &[char]) -> Self {
        let mut buf = [0u8; B];
        buf[0] = 0xc3;
        buf[1] = 0xa9;
        buf[2] = b'\n';
        let mut ch = ['\0'; K];
        let mut start = [0usize; K];
        let mut i = 0;
        while i < K {
            let b: u8 = if i < fixed.len() { fixed[i] as u8 } else { kani::any() };
            kani::assume(b < 0x80);
            buf[3 + i] = b;
            ch[i] = b as char;
            start[i] = 3 + i;
            i += 1;
        }
        Txt { buf, len: 3 + K, pre_b: 3, pre_c: 2, pre_nl: 1, pre_line_b: 3, pre_line_c: 2, n: K, ch, start }
    }

    pub(crate) fn as_str(&self) -> &str {
        unsafe { std::str::from_utf8_unchecked(&self.buf[..self.len]) }
    }

    /// Index (0..=n) of the symbolic char that starts at absolute byte offset `p` (n for the end of
    /// the text); None if `p` is not a char boundary of the symbolic part.
    pub(crate) fn idx_of(&self, p: usize) -> Option<usize> {
        let mut res = None;
        let mut i = 0;
        while i < K {
            if i < self.n && self.start[i] == p {
                res = Some(i);
            }
            i += 1;
        }
        if p == self.len {
            res = Some(self.n);
        }
        res
    }

    /// absolute byte offset of boundary index `i` (0..=n)
    pub(crate) fn byte_at(&self, i: usize) -> usize {
        if i < self.n {
            self.start[i]
        } else {
            self.len
        }
    }

    /// absolute char offset of boundary index i
    pub(crate) fn char_at(&self, i: usize) -> u32 {
        self.pre_c + i as u32
    }

    /// number of line feeds among symbolic chars [0, i)
    pub(crate) fn nl_upto(&self, i: usize) -> u32 {
        let mut c = 0u32;
        let mut j = 0;
        while j < K {
            if j < i && j < self.n && self.ch[j] == '\n' {
                c += 1;
            }
            j += 1;
        }
        c
    }

    /// (absolute byte offset, absolute char offset) of the start of the line containing boundary i
    pub(crate) fn line_start(&self, i: usize) -> (usize, u32) {
        let mut b = self.pre_line_b;
        let mut c = self.pre_line_c;
        let mut j = 0;
        while j < K {
            if j < i && j < self.n && self.ch[j] == '\n' {
                b = self.byte_at(j + 1);
                c = self.char_at(j + 1);
            }
            j += 1;
        }
        (b, c)
    }
}
