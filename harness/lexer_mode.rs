// harnesses for lexer_mode
