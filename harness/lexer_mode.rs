// Flag plumbing of the lexer modes (C13/C14 rely on these round trips). Compiled inside `lexer::lexer_mode`.

#[kani::proof]
fn flags_roundtrip() {
    let float: bool = kani::any();
    let na = match kani::any::<u8>() % 4 {
        0 => MacroEvalNextArgumentMode::None,
        1 => MacroEvalNextArgumentMode::SingleEvalExpr,
        2 => MacroEvalNextArgumentMode::EvalExpr,
        _ => MacroEvalNextArgumentMode::MacroArg,
    };
    let (st, se, pm): (bool, bool, bool) = (kani::any(), kani::any(), kani::any());
    let f = MacroEvalExprFlags::new(if float { MacroEvalNumericMode::Float } else { MacroEvalNumericMode::Integer }, na, st, se, pm);
    assert!(f.float_mode() == float && matches!(f.numeric_mode(), MacroEvalNumericMode::Float) == float, "C13: eval flags: numeric mode");
    assert!(f.terminate_on_stat() == st && f.terminate_on_semi() == se && f.parens_mask_comma() == pm, "C13: eval flags: terminators");
    assert!(f.terminate_on_comma() == !matches!(na, MacroEvalNextArgumentMode::None), "C13: comma terminates iff another argument may follow");
    assert!(f.follow_arg_mode() as u8 == na as u8, "C13: eval flags: next argument mode");
    let ctx = match kani::any::<u8>() % 3 {
        0 => MacroArgContext::BuiltInMacro,
        1 => MacroArgContext::MacroCall,
        _ => MacroArgContext::MacroDef,
    };
    let (p, t): (bool, bool) = (kani::any(), kani::any());
    let g = MacroArgNameValueFlags::new(ctx, p, t);
    assert!(g.context() as u8 == ctx as u8 && g.populate_next_arg_stack() == p && g.terminate_on_comma() == t, "C13: argument flags round trip");
    kani::cover!(pm && !st);
}
