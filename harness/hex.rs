// Hex string literal decoding (C07 clause: decoded byte-wise as Latin-1 when, and only when, the body
// consists of hex digit pairs, commas allowed; C16: either letter case of the digits).
// The `encoding` crate's decoder runs through `Box<dyn RawDecoder>` (CBMC would have to consider the
// decoders of every encoding in the crate): `Encoding::decode` for the single-byte encoding is
// replaced by the identity byte -> U+00XX map, which is what ISO-8859-1 is.

use std::borrow::Cow;

pub(crate) trait Latin1Stub: Encoding {
    fn latin1_decode(&self, input: &[u8], _trap: DecoderTrap) -> Result<String, Cow<'static, str>> {
        let mut s = String::with_capacity(8);
        let mut i = 0;
        while i < input.len() {
            s.push(input[i] as char);
            i += 1;
        }
        Ok(s)
    }
}
impl<T: Encoding + ?Sized> Latin1Stub for T {}

macro_rules! hex_harness {
    ($name:ident, $n:literal, $uw:literal) => {
        #[kani::proof]
        #[kani::unwind($uw)]
        #[kani::stub(encoding::Encoding::decode, Latin1Stub::latin1_decode)]
        fn $name() {
            // quote + N body bytes (any ASCII except the quote) + quote + x
            let mut buf = [0u8; $n + 3];
            let dq: bool = kani::any();
            let q = if dq { b'"' } else { b'\'' };
            buf[0] = q;
            let mut i = 0;
            while i < $n {
                let b: u8 = kani::any();
                kani::assume(b < 0x80 && b != q);
                buf[1 + i] = b;
                i += 1;
            }
            buf[$n + 1] = q;
            buf[$n + 2] = if kani::any() { b'x' } else { b'X' };
            let text = unsafe { std::str::from_utf8_unchecked(&buf) };
            let r = parse_sas_hex_string(text);
            // reference: drop commas; the rest must be pairs of hex digits
            let mut digits = [0u8; $n];
            let mut nd = 0usize;
            let mut all_hex = true;
            let mut i = 0;
            while i < $n {
                let b = buf[1 + i];
                if b != b',' {
                    if b.is_ascii_hexdigit() {
                        digits[nd] = if b.is_ascii_digit() { b - b'0' } else { (b | 0x20) - b'a' + 10 };
                        nd += 1;
                    } else {
                        all_hex = false;
                    }
                }
                i += 1;
            }
            let valid = all_hex && nd % 2 == 0;
            match &r {
                Ok(s) => {
                    assert!(valid, "C07: a hex literal whose body is not hex digit pairs must not be decoded");
                    // byte-wise Latin-1: char j = U+00(d[2j] d[2j+1])
                    let mut it = s.chars();
                    let mut j = 0;
                    while j < $n / 2 {
                        if 2 * j < nd {
                            let c = it.next();
                            assert!(c == Some((digits[2 * j] * 16 + digits[2 * j + 1]) as char), "C07/C16: decoded value of a hex digit pair (either letter case)");
                        }
                        j += 1;
                    }
                    assert!(it.next().is_none(), "C07: decoded hex literal has one character per digit pair");
                }
                Err(e) => {
                    assert!(!valid, "C07/C16: a hex literal made of hex digit pairs (any letter case, commas allowed) must decode");
                    assert!(*e == ErrorKind::InvalidHexStringConstant, "C07: invalid hex literal error kind");
                }
            }
            kani::cover!(r.is_ok() && nd == 2 && $n >= 3, "pair with a comma");
            kani::cover!(r.is_err() && all_hex, "odd number of digits");
            kani::cover!(r.is_ok() && nd == $n && buf[1] >= b'a', "lower-case digits");
            std::mem::forget(r);
        }
    };
}
hex_harness!(hex_decode_n2, 2, 8);
hex_harness!(hex_decode_n3, 3, 9);
hex_harness!(hex_decode_n4, 4, 10);
