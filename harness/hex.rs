// hex-string decoding is excluded (DESIGN.md: parse_sas_hex_string is out of CBMC's reach)
