// harnesses for hex
