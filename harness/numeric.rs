// harnesses for numeric
