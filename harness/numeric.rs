// Numeric literal parsers against an arithmetic specification (C08, C16). Compiled inside `lexer::numeric`.
// The float path (lexical's Eisel-Lemire / big-integer code) is outside CBMC's reach and excluded.

fn ascii_str<const N: usize>(buf: &[u8; N], len: usize) -> &str {
    unsafe { std::str::from_utf8_unchecked(&buf[..len]) }
}

macro_rules! num_int_harness {
    ($n:literal, $uw:literal, $name:ident) => {
        /// Integer mode: the token is the digit prefix, the payload its value.
        #[kani::proof]
        #[kani::unwind($uw)]
        fn $name() {
            let buf: [u8; $n] = kani::any();
            let len: usize = kani::any();
            kani::assume(len <= $n);
            let mut i = 0;
            while i < $n {
                kani::assume(buf[i] < 0x80);
                i += 1;
            }
            let s = ascii_str(&buf, len);
            let r = try_parse_decimal(s, true, false);
            // reference
            let mut l = 0usize;
            let mut val = 0u64;
            let mut i = 0;
            while i < $n {
                if i < len && l == i && buf[i].is_ascii_digit() {
                    val = val * 10 + (buf[i] - b'0') as u64;
                    l += 1;
                }
                i += 1;
            }
            match r {
                None => assert!(l == 0, "C08: a digit prefix is not recognised as an integer literal"),
                Some(res) => {
                    assert!(l > 0 && res.length.get() == l, "C08: integer literal does not span exactly its digits");
                    assert!(res.error.is_none() && res.token.0 == TokenType::IntegerLiteral, "C08: integer notation gives an integer token without error");
                    assert!(matches!(res.token.1, Payload::Integer(v) if v == val), "C08: integer payload differs from the value written");
                }
            }
            kani::cover!(l == $n && val > 99);
            kani::cover!(l > 0 && l < len);
        }
    };
}
num_int_harness!(3, 5, num_int_spec_n3);
num_int_harness!(5, 7, num_int_spec_n5);

macro_rules! num_hex_harness {
    ($n:literal, $uw:literal, $name:ident) => {
        /// Hex mode: maximal hex-digit prefix, value base 16; identical for every letter case (C16).
        #[kani::proof]
        #[kani::unwind($uw)]
        fn $name() {
            let buf: [u8; $n] = kani::any();
            let flipm: [bool; $n] = kani::any();
            let len: usize = kani::any();
            kani::assume(len <= $n);
            let mut buf2 = buf;
            let mut i = 0;
            while i < $n {
                kani::assume(buf[i] < 0x80);
                if flipm[i] && buf[i].is_ascii_alphabetic() {
                    buf2[i] = buf[i] ^ 0x20;
                }
                i += 1;
            }
            kani::assume(len >= 1 && buf[0].is_ascii_digit());
            let r = try_parse_hex_integer(ascii_str(&buf, len));
            let r2 = try_parse_hex_integer(ascii_str(&buf2, len));
            let mut l = 0usize;
            let mut val = 0u64;
            let mut i = 0;
            while i < $n {
                if i < len && l == i && buf[i].is_ascii_hexdigit() {
                    val = val * 16 + (buf[i] as char).to_digit(16).unwrap() as u64;
                    l += 1;
                }
                i += 1;
            }
            match (&r, &r2) {
                (Some(a), Some(b)) => {
                    assert!(a.length == b.length && a.token.0 == b.token.0 && a.error == b.error, "C16: hex literal span/type depends on letter case");
                    assert!(matches!((a.token.1, b.token.1), (Payload::Integer(x), Payload::Integer(y)) if x == y), "C16: hex literal value depends on letter case");
                    assert!(a.length.get() == l && a.error.is_none() && a.token.0 == TokenType::IntegerLiteral, "C08: hex literal spans its hex digits");
                    assert!(matches!(a.token.1, Payload::Integer(v) if v == val), "C08: hex payload differs from the value written");
                }
                (None, None) => assert!(l == 0, "C08: hex digits not recognised"),
                _ => assert!(false, "C16: hex literal recognition depends on letter case"),
            }
            kani::cover!(l == $n && val > 0xff);
            kani::cover!(l >= 2 && flipm[1] && buf[1].is_ascii_alphabetic());
        }
    };
}
num_hex_harness!(3, 5, num_hex_spec_n3);
num_hex_harness!(4, 6, num_hex_spec_n4);
