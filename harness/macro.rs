// harnesses for macro
