// Harnesses for the macro helper predicates (C06, C13, C16, C18). Compiled inside `lexer::macro`.

use super::super::verif::{det_xid_continue, det_xid_start};

fn flip(c: char, bit: bool) -> char {
    if bit && c.is_ascii_alphabetic() {
        ((c as u8) ^ 0x20) as char
    } else {
        c
    }
}

/// C16: a mnemonic is recognised independently of ASCII letter case; C06/C13: what is recognised
/// spells the mnemonic and is not followed by a name character.
#[kani::proof]
#[kani::unwind(6)]
#[kani::stub(unicode_ident::is_xid_continue, det_xid_continue)]
fn mac_mnemonic_case_and_shape() {
    let n: usize = kani::any();
    kani::assume(n >= 1 && n <= 4);
    let a: [char; 4] = [kani::any(), kani::any(), kani::any(), kani::any()];
    kani::assume(matches!(a[0], 'e' | 'n' | 'l' | 'g' | 'a' | 'o' | 'i' | 'E' | 'N' | 'L' | 'G' | 'A' | 'O' | 'I'));
    let m: [bool; 4] = [kani::any(), kani::any(), kani::any(), kani::any()];
    let b = [flip(a[0], m[0]), flip(a[1], m[1]), flip(a[2], m[2]), flip(a[3], m[3])];
    let r1 = is_macro_eval_mnemonic(a.iter().copied().take(n));
    let r2 = is_macro_eval_mnemonic(b.iter().copied().take(n));
    assert!(r1 == r2, "C16: mnemonic operator recognition depends on letter case");
    if let (Some(tt), extra) = r1 {
        let len = 1 + extra as usize;
        assert!(len <= n, "C13: mnemonic longer than the text");
        let up = |c: char| c.to_ascii_uppercase();
        let spelled = match tt {
            TokenType::KwEQ => len == 2 && up(a[0]) == 'E' && up(a[1]) == 'Q',
            TokenType::KwIN => len == 2 && up(a[0]) == 'I' && up(a[1]) == 'N',
            TokenType::KwOR => len == 2 && up(a[0]) == 'O' && up(a[1]) == 'R',
            TokenType::KwLT => len == 2 && up(a[0]) == 'L' && up(a[1]) == 'T',
            TokenType::KwLE => len == 2 && up(a[0]) == 'L' && up(a[1]) == 'E',
            TokenType::KwGT => len == 2 && up(a[0]) == 'G' && up(a[1]) == 'T',
            TokenType::KwGE => len == 2 && up(a[0]) == 'G' && up(a[1]) == 'E',
            TokenType::KwNE => len == 2 && up(a[0]) == 'N' && up(a[1]) == 'E',
            TokenType::KwAND => len == 3 && up(a[0]) == 'A' && up(a[1]) == 'N' && up(a[2]) == 'D',
            TokenType::KwNOT => len == 3 && up(a[0]) == 'N' && up(a[1]) == 'O' && up(a[2]) == 'T',
            _ => false,
        };
        assert!(spelled, "C06/C13: a mnemonic token must spell its operator");
        assert!(len == n || !det_xid_continue(a[len]), "C13: a mnemonic followed by a name character is not an operator");
    } else {
        // completeness for the two-letter comparison operators followed by a non-name char / end of text
        let up = |c: char| c.to_ascii_uppercase();
        let two = n >= 2 && matches!((up(a[0]), up(a[1])), ('E', 'Q') | ('I', 'N') | ('O', 'R') | ('L', 'T') | ('L', 'E') | ('G', 'T') | ('G', 'E') | ('N', 'E'));
        assert!(!(two && (n == 2 || !det_xid_continue(a[2]))), "C13/C16: a mnemonic operator is not recognised");
    }
    kani::cover!(matches!(r1.0, Some(TokenType::KwAND)) && m[1] && n == 4);
    kani::cover!(matches!(r1.0, Some(TokenType::KwGE)) && m[1] && a[1] == 'e');
    kani::cover!(r1.0.is_none() && n == 3);
}

/// C18: the separator predicate only ever asks for a MacroSep before a macro statement keyword or a
/// macro label, and never after a semicolon, a label, %then or %else.
#[cfg(feature = "macro_sep")]
#[kani::proof]
fn sep_predicate_spec() {
    let x: u16 = kani::any();
    kani::assume(x <= TokenType::KwPut as u16);
    let tok: TokenType = unsafe { std::mem::transmute::<u16, TokenType>(x) };
    let y: u16 = kani::any();
    kani::assume(y <= TokenType::KwPut as u16);
    let has_prev: bool = kani::any();
    let prev = if has_prev { Some(unsafe { std::mem::transmute::<u16, TokenType>(y) }) } else { None };
    let r = needs_macro_sep(prev, tok);
    if r {
        assert!(is_macro_stat_tok_type(tok) || tok == TokenType::MacroLabel, "C18: MacroSep only directly before a macro statement keyword or macro label");
        assert!(!matches!(prev, None | Some(TokenType::SEMI | TokenType::MacroLabel | TokenType::KwmThen | TokenType::KwmElse)), "C18: MacroSep never directly after a semicolon, a label, %then or %else (or at the start)");
    }
    // the statements that open or close a block are always separated from preceding open code
    if matches!(tok, TokenType::KwmLet | TokenType::KwmIf | TokenType::KwmDo | TokenType::KwmEnd | TokenType::KwmMacro | TokenType::KwmMend | TokenType::KwmPut | TokenType::MacroLabel)
        && !matches!(prev, None | Some(TokenType::SEMI | TokenType::MacroLabel | TokenType::KwmThen | TokenType::KwmElse))
    {
        assert!(r, "C18: MacroSep missing before a macro statement that follows open code");
    }
    kani::cover!(r && tok == TokenType::MacroLabel);
    kani::cover!(!r && tok == TokenType::KwmDo);
}

/// C06: N ampersands split into resolve operations = the set bits of N, highest first.
#[kani::proof]
#[kani::unwind(34)]
fn mac_resolve_ops_spec() {
    let n: u32 = kani::any();
    kani::assume(n >= 1 && n <= 255);
    let v = get_macro_resolve_ops_from_amps(n);
    let mut total = 0u32;
    let mut prev = 32u8;
    let mut i = 0;
    while i < 8 {
        if i < v.len() {
            assert!(v[i] < prev, "C06: resolve operations are strictly descending powers");
            assert!(n & (1 << v[i]) != 0, "C06: a resolve operation that is not a set bit of the ampersand count");
            total += 1 << v[i];
            prev = v[i];
        }
        i += 1;
    }
    assert!(total == n && v.len() <= 8, "C06: resolve operations do not add up to the ampersand count");
    kani::cover!(v.len() == 3);
    std::mem::forget(v);
}

/// C13/C06: an ampersand run is a macro variable reference iff a name start follows it.
#[kani::proof]
#[kani::unwind(7)]
#[kani::stub(unicode_ident::is_xid_start, det_xid_start)]
fn mac_is_macro_amp_spec() {
    let n: usize = kani::any();
    kani::assume(n >= 1 && n <= 5);
    let a: [char; 5] = [kani::any(), kani::any(), kani::any(), kani::any(), kani::any()];
    kani::assume(a[0] == '&');
    let (is_m, cnt) = is_macro_amp(a.iter().copied().take(n));
    let mut k = 0usize;
    let mut i = 0;
    while i < 5 {
        if i < n && k == i && a[i] == '&' {
            k += 1;
        }
        i += 1;
    }
    assert!(cnt as usize == k, "C06: ampersand count");
    assert!(is_m == (k < n && (det_xid_start(a[k]) || a[k] == '_')), "C13: macro variable trigger = ampersands followed by a name start");
    kani::cover!(is_m && k == 3);
    kani::cover!(!is_m && k == n);
}
