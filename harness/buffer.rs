// harnesses for buffer
