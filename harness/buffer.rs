// Harnesses for `WorkTokenizedBuffer` / `TokenizedBuffer` (C02, C04, C05, C17, C19) and the
// array-backed *shadow buffer* that stands in for `WorkTokenizedBuffer` in lexer-level harnesses
// (its contract is itself proved against the real methods by the `buf_refines_shadow_*` harnesses).
// Compiled inside `lexer::buffer` under cfg(kani).

use super::super::cursor::verif::{any_str, any_str_prefixed, count_chars};

// ---------------------------------------------------------------------------------------------
// lean constructors / observers (need the private fields)

impl WorkTokenizedBuffer {
    /// Work buffer with concrete capacities (the real `new` sizes its vectors from the symbolic
    /// source length, which CBMC cannot handle; capacity is irrelevant to every property).
    pub(crate) fn verif_new(source_len: usize, cap: usize) -> WorkTokenizedBuffer {
        let _ = source_len;
        WorkTokenizedBuffer {
            line_infos: Vec::with_capacity(cap),
            token_infos: Vec::with_capacity(cap),
            string_literals_buffer: String::with_capacity(cap),
            #[cfg(debug_assertions)]
            source_len,
        }
    }
    /// Mirror of the shadow token list for the one real observer that cannot be stubbed
    /// (`iter_token_infos` returns an opaque iterator type).
    pub(crate) fn verif_set_tokens(&mut self, toks: &[TokenInfo; 4], n: usize) {
        self.token_infos.clear();
        self.token_infos.extend_from_slice(toks);
        self.token_infos.truncate(n);
    }
    pub(crate) fn verif_literals(&self) -> &str {
        self.string_literals_buffer.as_str()
    }
    pub(crate) fn verif_token(&self, i: usize) -> TokenInfo {
        self.token_infos[i]
    }
    pub(crate) fn verif_line(&self, i: usize) -> (u32, u32) {
        (self.line_infos[i].byte_offset.get(), self.line_infos[i].start.get())
    }
}

pub(crate) fn line_idx(v: u32) -> LineIdx {
    LineIdx::new(v)
}
pub(crate) fn line_idx_get(l: LineIdx) -> u32 {
    l.0
}
pub(crate) fn token_idx(v: u32) -> TokenIdx {
    TokenIdx::new(v)
}
pub(crate) fn cp_counts(c: &WorkBufferCheckpoint) -> (usize, usize, usize) {
    (c.line_count, c.token_count, c.string_literals_len)
}

pub(crate) fn any_channel() -> TokenChannel {
    match kani::any::<u8>() % 3 {
        0 => TokenChannel::DEFAULT,
        1 => TokenChannel::HIDDEN,
        _ => TokenChannel::COMMENT,
    }
}

pub(crate) fn any_token_type() -> TokenType {
    let x: u16 = kani::any();
    kani::assume(x <= TokenType::KwPut as u16);
    unsafe { std::mem::transmute::<u16, TokenType>(x) }
}

pub(crate) fn any_payload() -> Payload {
    match kani::any::<u8>() % 4 {
        0 => Payload::None,
        1 => Payload::Integer(kani::any()),
        2 => Payload::Float(f64::from_bits(kani::any::<u64>() & 0x7fef_ffff_ffff_ffff)),
        _ => Payload::StringLiteral(kani::any(), kani::any()),
    }
}

fn payload_same(a: Payload, b: Payload) -> bool {
    match (a, b) {
        (Payload::None, Payload::None) => true,
        (Payload::Integer(x), Payload::Integer(y)) => x == y,
        (Payload::Float(x), Payload::Float(y)) => x.to_bits() == y.to_bits(),
        (Payload::StringLiteral(a, b), Payload::StringLiteral(c, d)) => a == c && b == d,
        _ => false,
    }
}

// ---------------------------------------------------------------------------------------------
// Shadow buffer

pub(crate) mod shadow {
    //! Array-backed model of `WorkTokenizedBuffer` used as a stub in lexer-level harnesses.
    //! Capacity overflow is an `assert!` (never an `assume`), the real methods' debug
    //! assertions are copied as assertions.
    use super::*;
    pub(crate) const CAP: usize = 8;
    /// look-behind scans (last default-channel token) inspect at most this many tokens
    pub(crate) const SCAN_CAP: usize = 5;
    pub(crate) const LCAP: usize = 16;
    pub(crate) static mut TOK_N: usize = 0;
    pub(crate) static mut TOK: [std::mem::MaybeUninit<TokenInfo>; CAP] = [const { std::mem::MaybeUninit::uninit() }; CAP];
    pub(crate) static mut LINE_N: usize = 0;
    pub(crate) static mut LINE: [std::mem::MaybeUninit<LineInfo>; CAP] = [const { std::mem::MaybeUninit::uninit() }; CAP];
    /// The literal buffer is modelled by its length and the list of appended sections. A section
    /// that is a slice of the source is recorded by its source byte range (no per-byte copies:
    /// those cost CBMC a symbolic-index array write per byte); an owned string (decoded hex
    /// literal) is recorded as opaque (offset usize::MAX).
    pub(crate) static mut LIT_N: usize = 0;
    pub(crate) const SEC_CAP: usize = 6;
    pub(crate) static mut SEC_N: usize = 0;
    pub(crate) static mut SEC_OFF: [usize; SEC_CAP] = [0; SEC_CAP];
    pub(crate) static mut SEC_LEN: [usize; SEC_CAP] = [0; SEC_CAP];
    pub(crate) static mut SEC_END: [usize; SEC_CAP] = [0; SEC_CAP];
    pub(crate) static mut SRC_PTR: usize = 0;
    pub(crate) static mut SRC_LEN: usize = 0;

    pub(crate) fn reset(source_len: usize) {
        unsafe {
            TOK_N = 0;
            LINE_N = 0;
            LIT_N = 0;
            SEC_N = 0;
            SRC_PTR = 0;
            SRC_LEN = source_len;
        }
    }
    /// Tell the shadow where the source text lives, so that appended slices are recorded as ranges.
    pub(crate) fn set_source(src: &str) {
        unsafe {
            SRC_PTR = src.as_ptr() as usize;
            SRC_LEN = src.len();
        }
    }
    pub(crate) fn sec_n() -> usize {
        unsafe { SEC_N }
    }
    /// (source offset or usize::MAX, length) of section j
    pub(crate) fn sec(j: usize) -> (usize, usize) {
        unsafe { (SEC_OFF[j], SEC_LEN[j]) }
    }
    pub(crate) fn tok_n() -> usize {
        unsafe { TOK_N }
    }
    pub(crate) fn line_n() -> usize {
        unsafe { LINE_N }
    }
    pub(crate) fn lit_n() -> usize {
        unsafe { LIT_N }
    }
    pub(crate) fn tok(i: usize) -> TokenInfo {
        unsafe { TOK[i].assume_init() }
    }
    pub(crate) fn line(i: usize) -> (u32, u32) {
        unsafe {
            let l = LINE[i].assume_init();
            (l.byte_offset.get(), l.start.get())
        }
    }
    /// Pre-load a token (look-behind context of a harness).
    pub(crate) fn preload_token(t: TokenInfo) {
        unsafe {
            TOK[TOK_N] = std::mem::MaybeUninit::new(t);
            TOK_N += 1;
        }
    }
    pub(crate) fn mk_token(channel: TokenChannel, token_type: TokenType, byte_offset: u32, start: u32, line: u32, payload: Payload) -> TokenInfo {
        TokenInfo { channel, token_type, byte_offset: ByteOffset::new(byte_offset), start: CharOffset::new(start), line: LineIdx::new(line), payload }
    }
    pub(crate) fn preload_literal_bytes(n: usize) {
        unsafe {
            LIT_N = n;
            SEC_N = 0;
        }
    }

    impl WorkTokenizedBuffer {
        pub(crate) fn sh_add_token(&mut self, channel: TokenChannel, token_type: TokenType, byte_offset: ByteOffset, start: CharOffset, line: LineIdx, payload: Payload) {
            unsafe {
                assert!(TOK_N < CAP, "shadow token capacity");
                #[cfg(debug_assertions)]
                {
                    assert!(usize::from(start) <= SRC_LEN, "C01/C02/C03: Token char offset out of bounds (add_token debug assertion)");
                    if TOK_N > 0 {
                        assert!(byte_offset >= TOK[TOK_N - 1].assume_init().byte_offset, "C01/C02: Token byte offset before previous token byte offset (add_token debug assertion)");
                    }
                    assert!((line.0 as usize) < LINE_N, "C01/C04: Line index out of bounds (add_token debug assertion)");
                    assert!(byte_offset >= LINE[line.0 as usize].assume_init().byte_offset, "C01/C02/C04: Token byte offset before line byte offset (add_token debug assertion)");
                }
                TOK[TOK_N] = std::mem::MaybeUninit::new(TokenInfo { channel, token_type, byte_offset, start, line, payload });
                TOK_N += 1;
            }
        }
        #[cfg(feature = "macro_sep")]
        #[allow(clippy::too_many_arguments)]
        pub(crate) fn sh_insert_token(&mut self, at: TokenIdx, channel: TokenChannel, token_type: TokenType, byte_offset: ByteOffset, start: CharOffset, line: LineIdx, payload: Payload) {
            unsafe {
                assert!(TOK_N < CAP, "shadow token capacity");
                let at = at.get() as usize;
                assert!(at <= TOK_N, "Token index out of bounds");
                #[cfg(debug_assertions)]
                {
                    if at > 0 {
                        assert!(byte_offset >= TOK[at - 1].assume_init().byte_offset, "C01/C02: Token byte offset before previous token byte offset (add_token debug assertion)");
                    }
                    assert!((line.0 as usize) < LINE_N, "C01/C04: Line index out of bounds (add_token debug assertion)");
                    assert!(byte_offset >= LINE[line.0 as usize].assume_init().byte_offset, "C01/C02/C04: Token byte offset before line byte offset (add_token debug assertion)");
                }
                assert!(TOK_N <= SCAN_CAP - 1, "shadow scan capacity");
                let mut i = SCAN_CAP - 1;
                while i > 0 {
                    if i > at && i <= TOK_N {
                        TOK[i] = TOK[i - 1];
                    }
                    i -= 1;
                }
                TOK[at] = std::mem::MaybeUninit::new(TokenInfo { channel, token_type, byte_offset, start, line, payload });
                TOK_N += 1;
            }
        }
        pub(crate) fn sh_add_line(&mut self, byte_offset: ByteOffset, start: CharOffset) -> LineIdx {
            unsafe {
                assert!(LINE_N < CAP, "shadow line capacity");
                #[cfg(debug_assertions)]
                assert!(usize::from(byte_offset) <= SRC_LEN, "Line byte offset out of bounds");
                LINE[LINE_N] = std::mem::MaybeUninit::new(LineInfo { byte_offset, start });
                LINE_N += 1;
                LineIdx::new((LINE_N - 1) as u32)
            }
        }
        pub(crate) fn sh_last_line(&self) -> Option<LineIdx> {
            unsafe {
                if LINE_N == 0 {
                    None
                } else {
                    Some(LineIdx::new((LINE_N - 1) as u32))
                }
            }
        }
        pub(crate) fn sh_last_line_info(&self) -> Option<&LineInfo> {
            unsafe {
                if LINE_N == 0 {
                    None
                } else {
                    Some((*std::ptr::addr_of!(LINE))[LINE_N - 1].assume_init_ref())
                }
            }
        }
        pub(crate) fn sh_last_token(&self) -> Option<TokenIdx> {
            unsafe {
                if TOK_N == 0 {
                    None
                } else {
                    Some(TokenIdx::new((TOK_N - 1) as u32))
                }
            }
        }
        pub(crate) fn sh_last_token_info(&self) -> Option<&TokenInfo> {
            unsafe {
                if TOK_N == 0 {
                    None
                } else {
                    Some((*std::ptr::addr_of!(TOK))[TOK_N - 1].assume_init_ref())
                }
            }
        }
        pub(crate) fn sh_last_token_info_mut(&mut self) -> Option<&mut TokenInfo> {
            unsafe {
                if TOK_N == 0 {
                    None
                } else {
                    Some((*std::ptr::addr_of_mut!(TOK))[TOK_N - 1].assume_init_mut())
                }
            }
        }
        pub(crate) fn sh_last_token_info_on_default_channel(&self) -> Option<&TokenInfo> {
            unsafe {
                assert!(TOK_N <= SCAN_CAP, "shadow scan capacity");
                let mut best = CAP;
                let mut i = 0;
                while i < SCAN_CAP {
                    if i < TOK_N && (*std::ptr::addr_of!(TOK))[i].assume_init_ref().channel == TokenChannel::DEFAULT {
                        best = i;
                    }
                    i += 1;
                }
                if best < CAP {
                    Some((*std::ptr::addr_of!(TOK))[best].assume_init_ref())
                } else {
                    None
                }
            }
        }
        pub(crate) fn sh_last_token_info_on_default_channel_mut(&mut self) -> Option<&mut TokenInfo> {
            unsafe {
                assert!(TOK_N <= SCAN_CAP, "shadow scan capacity");
                let mut best = CAP;
                let mut i = 0;
                while i < SCAN_CAP {
                    if i < TOK_N && (*std::ptr::addr_of!(TOK))[i].assume_init_ref().channel == TokenChannel::DEFAULT {
                        best = i;
                    }
                    i += 1;
                }
                if best < CAP {
                    Some((*std::ptr::addr_of_mut!(TOK))[best].assume_init_mut())
                } else {
                    None
                }
            }
        }
        pub(crate) fn sh_line_count(&self) -> u32 {
            unsafe { LINE_N as u32 }
        }
        pub(crate) fn sh_token_count(&self) -> u32 {
            unsafe { TOK_N as u32 }
        }
        pub(crate) fn sh_next_string_literal_start(&self) -> u32 {
            unsafe { LIT_N as u32 }
        }
        pub(crate) fn sh_add_string_literal<S: AsRef<str>>(&mut self, literal: S) -> (u32, u32) {
            unsafe {
                let start = LIT_N as u32;
                let st = literal.as_ref();
                assert!(SEC_N < SEC_CAP, "shadow literal section capacity");
                // borrowed slices come from the source (add_string_literal_from_src); owned strings do not
                let from_src = std::mem::size_of::<S>() == std::mem::size_of::<&str>() && SRC_PTR != 0;
                SEC_OFF[SEC_N] = if from_src { (st.as_ptr() as usize).wrapping_sub(SRC_PTR) } else { usize::MAX };
                SEC_LEN[SEC_N] = st.len();
                LIT_N += st.len();
                SEC_END[SEC_N] = LIT_N;
                SEC_N += 1;
                (start, LIT_N as u32)
            }
        }
        pub(crate) fn sh_checkpoint(&self) -> WorkBufferCheckpoint {
            unsafe { WorkBufferCheckpoint { line_count: LINE_N, token_count: TOK_N, string_literals_len: LIT_N } }
        }
        pub(crate) fn sh_rollback(&mut self, checkpoint: WorkBufferCheckpoint) {
            unsafe {
                if checkpoint.token_count < TOK_N {
                    TOK_N = checkpoint.token_count;
                }
                if checkpoint.line_count < LINE_N {
                    LINE_N = checkpoint.line_count;
                }
                if checkpoint.string_literals_len < LIT_N {
                    LIT_N = checkpoint.string_literals_len;
                    let mut j = 0;
                    let mut keep = 0;
                    while j < SEC_CAP {
                        if j < SEC_N && SEC_END[j] <= LIT_N {
                            keep = j + 1;
                        }
                        j += 1;
                    }
                    SEC_N = keep;
                }
            }
        }
    }
}

// ---------------------------------------------------------------------------------------------
// Symbolic real work buffer + abstraction relation to the shadow

fn tok_same(a: &TokenInfo, b: &TokenInfo) -> bool {
    a.channel == b.channel && a.token_type == b.token_type && a.byte_offset == b.byte_offset && a.start == b.start && a.line == b.line && payload_same(a.payload, b.payload)
}

/// A real work buffer with exactly NT tokens, NL >= 1 lines and LN literal bytes, contents symbolic
/// (only what the buffer methods themselves rely on is constrained), mirrored into the shadow.
/// Counts are constants of the instance: conditional pushes make the Vec length symbolic and the
/// growth paths explode in CBMC.
fn any_work_buffer_mirrored<const NT: usize, const NL: usize, const LN: usize>() -> WorkTokenizedBuffer {
    shadow::reset(1000);
    let mut lines = [LineInfo { byte_offset: ByteOffset::new(0), start: CharOffset::new(0) }; NL];
    let mut i = 0;
    while i < NL {
        let bo: u32 = kani::any();
        let so: u32 = kani::any();
        kani::assume(bo <= 1000 && so <= bo);
        lines[i] = LineInfo { byte_offset: ByteOffset::new(bo), start: CharOffset::new(so) };
        unsafe {
            shadow::LINE[shadow::LINE_N] = std::mem::MaybeUninit::new(lines[i]);
            shadow::LINE_N += 1;
        }
        i += 1;
    }
    let mut toks = [TokenInfo { channel: TokenChannel::DEFAULT, token_type: TokenType::EOF, byte_offset: ByteOffset::new(0), start: CharOffset::new(0), line: LineIdx::new(0), payload: Payload::None }; NT];
    let mut prev = 0u32;
    let mut i = 0;
    while i < NT {
        let bo: u32 = kani::any();
        let so: u32 = kani::any();
        let li: u32 = kani::any();
        kani::assume(bo >= prev && bo <= 1000 && so <= bo && (li as usize) < NL);
        kani::assume(bo >= lines[li as usize].byte_offset.get());
        prev = bo;
        toks[i] = TokenInfo { channel: any_channel(), token_type: any_token_type(), byte_offset: ByteOffset::new(bo), start: CharOffset::new(so), line: LineIdx::new(li), payload: any_payload() };
        shadow::preload_token(toks[i]);
        i += 1;
    }
    let mut lit = [b'a'; LN];
    let mut i = 0;
    while i < LN {
        let c: u8 = kani::any();
        kani::assume(c < 0x80);
        lit[i] = c;
        i += 1;
    }
    shadow::preload_literal_bytes(LN);
    let mut lv = Vec::with_capacity(NL + 2);
    lv.extend_from_slice(&lines);
    let mut tv = Vec::with_capacity(NT + 2);
    tv.extend_from_slice(&toks);
    let mut sb = String::with_capacity(LN + 8);
    sb.push_str(unsafe { std::str::from_utf8_unchecked(&lit) });
    WorkTokenizedBuffer {
        line_infos: lv,
        token_infos: tv,
        string_literals_buffer: sb,
        #[cfg(debug_assertions)]
        source_len: 1000,
    }
}

fn assert_abstraction(b: &WorkTokenizedBuffer) {
    assert!(b.token_infos.len() == shadow::tok_n(), "C02: shadow refinement: token count");
    assert!(b.line_infos.len() == shadow::line_n(), "C02: shadow refinement: line count");
    assert!(b.string_literals_buffer.len() == shadow::lit_n(), "C02: shadow refinement: literal length");
    let mut i = 0;
    while i < shadow::CAP {
        if i < b.token_infos.len() {
            assert!(tok_same(&b.token_infos[i], &shadow::tok(i)), "C02: shadow refinement: token content");
        }
        if i < b.line_infos.len() {
            let l = shadow::line(i);
            assert!(b.line_infos[i].byte_offset.get() == l.0 && b.line_infos[i].start.get() == l.1, "C02: shadow refinement: line content");
        }
        i += 1;
    }
}

fn opt_tok_same(a: Option<&TokenInfo>, b: Option<&TokenInfo>) -> bool {
    match (a, b) {
        (None, None) => true,
        (Some(x), Some(y)) => tok_same(x, y),
        _ => false,
    }
}

/// Every mutating method of the real buffer refines the shadow method (same abstraction afterwards).
#[kani::proof]
#[kani::unwind(10)]
fn buf_refines_shadow_mutators() {
    let mut b = any_work_buffer_mirrored::<2, 2, 2>();
    let nl = b.line_infos.len();
    match kani::any::<u8>() % 4 {
        0 => {
            // add_token with arguments satisfying its own debug assertions
            let bo: u32 = kani::any();
            let so: u32 = kani::any();
            let li: u32 = kani::any();
            kani::assume(bo <= 1000 && so <= bo && (li as usize) < nl);
            kani::assume(bo >= b.line_infos[li as usize].byte_offset.get());
            if let Some(l) = b.token_infos.last() {
                kani::assume(bo >= l.byte_offset.get());
            }
            let (ch, tt, pl) = (any_channel(), any_token_type(), any_payload());
            b.add_token(ch, tt, ByteOffset::new(bo), CharOffset::new(so), LineIdx::new(li), pl);
            b.sh_add_token(ch, tt, ByteOffset::new(bo), CharOffset::new(so), LineIdx::new(li), pl);
            kani::cover!(b.token_infos.len() == 3);
        }
        1 => {
            let bo: u32 = kani::any();
            let so: u32 = kani::any();
            kani::assume(bo <= 1000);
            let r1 = b.add_line(ByteOffset::new(bo), CharOffset::new(so));
            let r2 = b.sh_add_line(ByteOffset::new(bo), CharOffset::new(so));
            assert!(r1 == r2, "C02: shadow refinement: add_line result");
        }
        2 => {
            // a slice of a source text at a symbolic char-aligned range
            let src = "ab\u{e9}c\u{1f525}";
            shadow::set_source(src);
            let cuts = [0usize, 1, 2, 4, 5, 9];
            let (ia, ib): (usize, usize) = (kani::any(), kani::any());
            kani::assume(ia <= ib && ib < 6);
            let sl = &src[cuts[ia]..cuts[ib]];
            let n0 = b.string_literals_buffer.len();
            let r1 = b.add_string_literal(sl);
            let r2 = b.sh_add_string_literal(sl);
            assert!(r1 == r2, "C02/C07: shadow refinement: add_string_literal result");
            assert!(r1.0 as usize == n0 && r1.1 as usize == b.string_literals_buffer.len() && (r1.1 - r1.0) as usize == sl.len(), "C07: add_string_literal returns the appended range");
            assert!(b.string_literals_buffer.as_bytes()[n0..].len() == sl.len(), "C07: literal buffer grew by the section");
            let mut k = 0;
            while k < 9 {
                if k < sl.len() {
                    assert!(b.string_literals_buffer.as_bytes()[n0 + k] == sl.as_bytes()[k], "C07: add_string_literal appends the section's bytes");
                }
                k += 1;
            }
            assert!(shadow::sec(shadow::sec_n() - 1) == (cuts[ia], sl.len()), "C07: shadow records the section as a source range");
        }
        _ => {
            let cp = WorkBufferCheckpoint { line_count: kani::any(), token_count: kani::any(), string_literals_len: kani::any() };
            b.rollback(cp);
            b.sh_rollback(cp);
            kani::cover!(b.token_infos.len() < 2);
        }
    }
    assert_abstraction(&b);
}

/// Every observer of the real buffer returns what the shadow observer returns.
#[kani::proof]
#[kani::unwind(10)]
fn buf_refines_shadow_observers() {
    let mut b = any_work_buffer_mirrored::<3, 2, 1>();
    assert_abstraction(&b);
    assert!(b.last_line() == b.sh_last_line(), "C02: shadow refinement: last_line");
    assert!(b.last_token() == b.sh_last_token(), "C02: shadow refinement: last_token");
    assert!(b.line_count() == b.sh_line_count(), "C02: shadow refinement: line_count");
    assert!(b.token_count() == b.sh_token_count(), "C02: shadow refinement: token_count");
    assert!(b.next_string_literal_start() == b.sh_next_string_literal_start(), "C02: shadow refinement: next_string_literal_start");
    assert!(b.last_line_info().map(|l| (l.byte_offset, l.start)) == b.sh_last_line_info().map(|l| (l.byte_offset, l.start)), "C02: shadow refinement: last_line_info");
    assert!(opt_tok_same(b.last_token_info(), b.sh_last_token_info()), "C02: shadow refinement: last_token_info");
    assert!(opt_tok_same(b.last_token_info_on_default_channel(), b.sh_last_token_info_on_default_channel()), "C02/C15: shadow refinement: last_token_info_on_default_channel");
    let c1 = b.checkpoint();
    let c2 = b.sh_checkpoint();
    assert!(cp_counts(&c1) == cp_counts(&c2), "C02: shadow refinement: checkpoint");
    // the _mut observers point at the same element
    let nt: TokenType = any_token_type();
    let a = b.last_token_info_on_default_channel_mut().map(|t| {
        t.token_type = nt;
    });
    let s = b.sh_last_token_info_on_default_channel_mut().map(|t| {
        t.token_type = nt;
    });
    assert!(a.is_some() == s.is_some());
    let a = b.last_token_info_mut().map(|t| {
        t.channel = TokenChannel::HIDDEN;
    });
    let s = b.sh_last_token_info_mut().map(|t| {
        t.channel = TokenChannel::HIDDEN;
    });
    assert!(a.is_some() == s.is_some());
    assert_abstraction(&b);
    kani::cover!(b.token_infos.len() == 3 && b.token_infos[2].channel != TokenChannel::DEFAULT && b.token_infos[0].channel == TokenChannel::DEFAULT);
}

#[cfg(feature = "macro_sep")]
#[kani::proof]
#[kani::unwind(10)]
fn buf_refines_shadow_insert() {
    let mut b = any_work_buffer_mirrored::<3, 2, 1>();
    let nl = b.line_infos.len();
    let at: u32 = kani::any();
    kani::assume((at as usize) <= b.token_infos.len());
    let bo: u32 = kani::any();
    let so: u32 = kani::any();
    let li: u32 = kani::any();
    kani::assume(bo <= 1000 && so <= bo && (li as usize) < nl);
    kani::assume(bo >= b.line_infos[li as usize].byte_offset.get());
    if at > 0 {
        kani::assume(bo >= b.token_infos[at as usize - 1].byte_offset.get());
    }
    let n0 = b.token_infos.len();
    let before0 = if n0 > 0 { Some(b.token_infos[0]) } else { None };
    let (ch, tt, pl) = (any_channel(), any_token_type(), any_payload());
    b.insert_token(TokenIdx::new(at), ch, tt, ByteOffset::new(bo), CharOffset::new(so), LineIdx::new(li), pl);
    b.sh_insert_token(TokenIdx::new(at), ch, tt, ByteOffset::new(bo), CharOffset::new(so), LineIdx::new(li), pl);
    assert_abstraction(&b);
    // frame of insert_token (C18/C02): one more token, the new one at `at`, the others keep their order
    assert!(b.token_infos.len() == n0 + 1, "C02/C18: insert_token adds exactly one token");
    assert!(b.token_infos[at as usize].token_type == tt && b.token_infos[at as usize].byte_offset.get() == bo, "C02/C18: inserted token at index");
    if let Some(t0) = before0 {
        let j = if at == 0 { 1 } else { 0 };
        assert!(tok_same(&b.token_infos[j], &t0), "C02/C18: insert_token shifts later tokens by one");
    }
    // iter_token_infos enumerates indices in order
    let mut k = 0u32;
    for (idx, ti) in b.iter_token_infos() {
        assert!(idx.get() == k && tok_same(ti, &b.token_infos[k as usize]), "C18: iter_token_infos index/content");
        k += 1;
    }
    kani::cover!(at == 1 && n0 == 3);
}

// ---------------------------------------------------------------------------------------------
// add_token on the nightly path (C19): appends exactly the given token once, also when full

fn add_token_appends(full: bool) {
    let mut b = WorkTokenizedBuffer {
        line_infos: Vec::with_capacity(2),
        token_infos: Vec::with_capacity(if full { 1 } else { 5 }),
        string_literals_buffer: String::new(),
        #[cfg(debug_assertions)]
        source_len: 1000,
    };
    b.add_line(ByteOffset::new(0), CharOffset::new(0));
    b.add_token(TokenChannel::DEFAULT, TokenType::SEMI, ByteOffset::new(0), CharOffset::new(0), LineIdx::new(0), Payload::None);
    let bo: u32 = kani::any();
    let so: u32 = kani::any();
    kani::assume(bo <= 1000 && so <= bo);
    let (ch, tt, pl) = (any_channel(), any_token_type(), any_payload());
    b.add_token(ch, tt, ByteOffset::new(bo), CharOffset::new(so), LineIdx::new(0), pl);
    assert!(b.token_infos.len() == 2, "C19/C02: add_token appends exactly one token (also when the vector is full)");
    let t = b.token_infos[1];
    assert!(t.channel == ch && t.token_type == tt && t.byte_offset.get() == bo && t.start.get() == so && payload_same(t.payload, pl), "C19/C02: add_token stores its arguments");
    assert!(b.token_infos[0].token_type == TokenType::SEMI, "C19/C02: add_token keeps earlier tokens");
    kani::cover!(cfg!(rustc_nightly), "nightly path compiled");
    kani::cover!(b.token_infos.capacity() >= 2);
    std::mem::forget(b);
}

/// capacity exhausted: push_within_capacity fails, reserve + push path
#[kani::proof]
#[kani::unwind(8)]
fn buf_add_token_nightly_full() {
    add_token_appends(true);
}

/// spare capacity: push_within_capacity succeeds
#[kani::proof]
#[kani::unwind(8)]
fn buf_add_token_nightly_spare() {
    add_token_appends(false);
}

// ---------------------------------------------------------------------------------------------
// Detached buffer satisfying the representation invariant established by C02-C04 (DESIGN §4.C05)

fn any_detached<const NT: usize, const NL: usize>() -> TokenizedBuffer {
    // exactly NT tokens (the last is EOF) and NL lines; smaller buffers are separate instances
    let bom: bool = kani::any();
    let (b0, c0) = if bom { (3u32, 1u32) } else { (0u32, 0u32) };
    let mut lines = [LineInfo { byte_offset: ByteOffset::new(b0), start: CharOffset::new(c0) }; NL];
    let mut i = 1;
    while i < NL {
        let pb = lines[i - 1].byte_offset.get();
        let pc = lines[i - 1].start.get();
        let bo: u32 = kani::any();
        let co: u32 = kani::any();
        // a line starts just past a '\n': at least one char further, bytes >= chars
        kani::assume(bo > pb && bo < 1000 && co > pc && bo - pb >= co - pc);
        lines[i] = LineInfo { byte_offset: ByteOffset::new(bo), start: CharOffset::new(co) };
        i += 1;
    }
    let mut toks = [TokenInfo { channel: TokenChannel::DEFAULT, token_type: TokenType::EOF, byte_offset: ByteOffset::new(b0), start: CharOffset::new(c0), line: LineIdx::new(0), payload: Payload::None }; NT];
    let mut i = 0;
    while i < NT {
        let bo: u32 = kani::any();
        let co: u32 = kani::any();
        let li: u32 = kani::any();
        kani::assume(bo < 1000 && (li as usize) < NL);
        if i == 0 {
            kani::assume(bo == b0 && co == c0);
        } else {
            let pb = toks[i - 1].byte_offset.get();
            let pc = toks[i - 1].start.get();
            kani::assume(bo >= pb && co >= pc && bo - pb >= co - pc && ((bo == pb) == (co == pc)));
            kani::assume(li >= toks[i - 1].line.0);
        }
        // the token's line is the last line entry at or before it, offsets consistent with it
        let lb = lines[li as usize].byte_offset.get();
        let lc = lines[li as usize].start.get();
        kani::assume(bo >= lb && co >= lc && bo - lb >= co - lc && ((bo == lb) == (co == lc)));
        if (li as usize) + 1 < NL {
            kani::assume(bo < lines[li as usize + 1].byte_offset.get());
        }
        let last = i + 1 == NT;
        if last {
            // EOF on the last line
            kani::assume(li as usize == NL - 1);
        }
        toks[i] = TokenInfo {
            channel: if last { TokenChannel::DEFAULT } else { any_channel() },
            token_type: if last { TokenType::EOF } else { any_token_type() },
            byte_offset: ByteOffset::new(bo),
            start: CharOffset::new(co),
            line: LineIdx::new(li),
            payload: if last { Payload::None } else { any_payload() },
        };
        i += 1;
    }
    TokenizedBuffer { line_infos: lines.to_vec(), token_infos: toks.to_vec(), string_literals_buffer: String::new() }
}

macro_rules! detached_harnesses {
    ($nt:literal, $nl:literal, $uw:literal, $c05:ident, $c02:ident) => {
        /// C05: bulk resolved view == per-token accessors on every valid buffer.
        #[kani::proof]
        #[kani::unwind($uw)]
        fn $c05() {
            let buf = any_detached::<$nt, $nl>();
            let v = buf.into_resolved_token_vec();
            assert!(v.len() == buf.token_infos.len(), "C05: one entry per token");
            let mut i = 0usize;
            while i < $nt {
                if i < v.len() {
                    let t = TokenIdx::new(i as u32);
                    let r = &v[i];
                    assert!(r.token_index == i as u32, "C05: index");
                    assert!(Ok(r.channel) == buf.get_token_channel(t), "C05: channel");
                    assert!(Ok(r.token_type) == buf.get_token_type(t), "C05: type");
                    assert!(Ok(r.start) == buf.get_token_start(t).map(CharOffset::get), "C05: start");
                    assert!(Ok(r.stop) == buf.get_token_end(t).map(CharOffset::get), "C05: stop");
                    assert!(Ok(r.line) == buf.get_token_start_line(t), "C05: line");
                    assert!(Ok(r.column) == buf.get_token_start_column(t), "C05: column");
                    assert!(Ok(r.end_line) == buf.get_token_end_line(t), "C05: end line");
                    assert!(Ok(r.end_column) == buf.get_token_end_column(t), "C05: end column");
                    assert!(buf.get_token_payload(t).map_or(false, |p| payload_same(p, r.payload)), "C05: payload");
                }
                i += 1;
            }
            kani::cover!($nl == 1 || v[0].end_line > v[0].line, "multi-line token");
            kani::cover!($nl > 1 || (v[0].start == v[0].stop && v[0].column == 0), "empty token at a line start");
            kani::cover!(buf.line_infos[0].byte_offset.get() == 3, "BOM line");
            kani::cover!($nl == 1 || $nt == 1 || (buf.token_infos[$nt - 1].byte_offset == buf.line_infos[$nl - 1].byte_offset && v[$nt - 1 - ($nt > 1) as usize].start < v[$nt - 1 - ($nt > 1) as usize].stop), "token ending in a line feed");
            std::mem::forget(v);
            std::mem::forget(buf);
        }

        /// C02: every accessor succeeds for every index the buffer hands out.
        #[kani::proof]
        #[kani::unwind($uw)]
        fn $c02() {
            let buf = any_detached::<$nt, $nl>();
            let n = buf.token_count();
            assert!(n as usize == buf.token_infos.len());
            let i: u32 = kani::any();
            kani::assume(i < n);
            let t = TokenIdx::new(i);
            let s = buf.get_token_start_byte_offset(t);
            let e = buf.get_token_end_byte_offset(t);
            assert!(s.is_ok() && e.is_ok(), "C02: byte offset accessors succeed");
            assert!(s.unwrap() <= e.unwrap(), "C02: token start <= token end");
            assert!(buf.get_token_start(t).is_ok() && buf.get_token_end(t).is_ok(), "C02: char offset accessors succeed");
            assert!(buf.get_token_start(t).unwrap() <= buf.get_token_end(t).unwrap(), "C02/C03: char start <= char end");
            assert!(buf.get_token_start_line(t).is_ok() && buf.get_token_end_line(t).is_ok(), "C02: line accessors succeed");
            assert!(buf.get_token_start_column(t).is_ok() && buf.get_token_end_column(t).is_ok(), "C02: column accessors succeed");
            assert!(buf.get_token_type(t).is_ok() && buf.get_token_channel(t).is_ok() && buf.get_token_payload(t).is_ok(), "C02: type/channel/payload accessors succeed");
            let sl = buf.get_token_start_line(t).unwrap();
            let el = buf.get_token_end_line(t).unwrap();
            assert!(sl >= 1 && el >= sl && el <= buf.line_count(), "C02/C04: 1 <= start line <= end line <= line count");
            if i + 1 < n {
                assert!(e.unwrap() == buf.get_token_start_byte_offset(TokenIdx::new(i + 1)).unwrap(), "C02: token end is the next token's start");
            }
            kani::cover!(i == 0);
            kani::cover!(i + 1 == n);
            std::mem::forget(buf);
        }
    };
}

detached_harnesses!(1, 1, 4, buf_bulk_vs_accessors_n1, buf_accessors_total_n1);
detached_harnesses!(2, 1, 4, buf_bulk_vs_accessors_n2l1, buf_accessors_total_n2l1);
detached_harnesses!(2, 2, 4, buf_bulk_vs_accessors_n2, buf_accessors_total_n2);
detached_harnesses!(3, 2, 5, buf_bulk_vs_accessors_n3l2, buf_accessors_total_n3l2);
detached_harnesses!(3, 3, 5, buf_bulk_vs_accessors_n3, buf_accessors_total_n3);

// ---------------------------------------------------------------------------------------------
// C04/C17/C02/C03: lines, columns, EOF derived from text, through the real add_line/add_token/into_detached

macro_rules! line_col_harness {
    ($k:literal, $uw:literal, $name:ident) => {
        /// Accessor formulas against line/column derived from the text alone. Line and column are
        /// functions of code-point boundaries and line-feed positions only, so the text is modelled as
        /// $k symbolic characters (UTF-8 length 1..=4, "is a line feed" flag, optional leading BOM).
        /// The buffer is the one the lexer plumbing builds for such a text (first line at the BOM end,
        /// one line entry just past every line feed, tokens = cursor snapshots at two symbolic cut
        /// points + EOF); it is assembled directly because conditional `push`es make CBMC explore Vec
        /// growth paths (add_line/add_token/into_detached are proved append-only separately).
        #[kani::proof]
        #[kani::unwind($uw)]
        fn $name() {
            let has_bom: bool = kani::any();
            let n: usize = kani::any();
            kani::assume(n <= $k);
            let mut clen = [1u32; $k];
            let mut is_nl = [false; $k];
            let mut i = 0;
            while i < $k {
                let l: u32 = kani::any();
                kani::assume(l >= 1 && l <= 4);
                clen[i] = l;
                is_nl[i] = kani::any();
                kani::assume(!is_nl[i] || l == 1);
                i += 1;
            }
            let start_b = if has_bom { 3u32 } else { 0 };
            let start_c = if has_bom { 1u32 } else { 0 };
            // reference positions: byte/char offset, line (1-based) and column of every char boundary
            let mut pos_b = [start_b; $k + 1];
            let mut pos_c = [start_c; $k + 1];
            let mut pos_line = [1u32; $k + 1];
            let mut pos_col = [0u32; $k + 1];
            let mut lines = [LineInfo { byte_offset: ByteOffset::new(start_b), start: CharOffset::new(start_c) }; $k + 1];
            let mut nl = 1usize;
            let mut i = 0;
            while i < $k {
                if i < n {
                    pos_b[i + 1] = pos_b[i] + clen[i];
                    pos_c[i + 1] = pos_c[i] + 1;
                    if is_nl[i] {
                        pos_line[i + 1] = pos_line[i] + 1;
                        pos_col[i + 1] = 0;
                        lines[nl] = LineInfo { byte_offset: ByteOffset::new(pos_b[i + 1]), start: CharOffset::new(pos_c[i + 1]) };
                        nl += 1;
                    } else {
                        pos_line[i + 1] = pos_line[i];
                        pos_col[i + 1] = pos_col[i] + 1;
                    }
                }
                i += 1;
            }
            // tokens at boundaries 0 <= cut1 <= cut2 <= n, EOF at n; a token's line index is the number
            // of line entries that existed when the cursor was there, minus one (start_token's last_line())
            let cut1: usize = kani::any();
            let cut2: usize = kani::any();
            kani::assume(cut1 <= cut2 && cut2 <= n);
            let mk = |p: usize, tt: TokenType| TokenInfo { channel: TokenChannel::DEFAULT, token_type: tt, byte_offset: ByteOffset::new(pos_b[p]), start: CharOffset::new(pos_c[p]), line: LineIdx::new(pos_line[p] - 1), payload: Payload::None };
            let toks = [mk(0, TokenType::WS), mk(cut1, TokenType::MacroString), mk(cut2, TokenType::SEMI), mk(n, TokenType::EOF)];
            let bounds = [0usize, cut1, cut2, n, n];
            let mut lv = lines.to_vec();
            lv.truncate(nl);
            let tb = TokenizedBuffer { line_infos: lv, token_infos: toks.to_vec(), string_literals_buffer: String::new() };
            assert!(tb.line_count() == pos_line[n], "C04: line count = 1 + number of line feeds");
            let ti: usize = kani::any();
            kani::assume(ti < 4);
            let t = TokenIdx::new(ti as u32);
            let (s, e) = (bounds[ti], bounds[ti + 1]);
            assert!(tb.get_token_start_byte_offset(t).unwrap().get() == pos_b[s] && tb.get_token_end_byte_offset(t).unwrap().get() == pos_b[e], "C02: token byte range");
            assert!(tb.get_token_start(t).unwrap().get() == pos_c[s] && tb.get_token_end(t).unwrap().get() == pos_c[e], "C03: token char range");
            assert!(tb.get_token_start_line(t) == Ok(pos_line[s]), "C04: start line = 1 + line feeds before the start");
            assert!(tb.get_token_start_column(t) == Ok(pos_col[s]), "C04/C17: start column = code points since the line began (BOM not counted)");
            // end = the start for an empty token; otherwise line of the last char, its column + 1
            let (el, ec) = if s == e { (pos_line[s], pos_col[s]) } else { (pos_line[e - 1], pos_col[e - 1] + 1) };
            assert!(tb.get_token_end_line(t) == Ok(el), "C04: end line is the line of the token's last character");
            assert!(tb.get_token_end_column(t) == Ok(ec), "C04/C17: end column is one past the last character's column");
            kani::cover!(el > pos_line[s], "multi-line token");
            kani::cover!(s == e && pos_col[s] == 0 && pos_line[s] > 1, "empty token at a line start");
            kani::cover!(has_bom && ti == 0 && pos_col[s] == 0, "first token after BOM at column 0");
            kani::cover!(s < e && is_nl[e - 1], "token ending in a line feed");
            kani::cover!(s < e && pos_b[e] - pos_b[s] > pos_c[e] - pos_c[s], "multi-byte characters");
            std::mem::forget(tb);
        }
    };
}

line_col_harness!(3, 6, buf_line_col_vs_text_k3);
line_col_harness!(5, 8, buf_line_col_vs_text_k5);

// ---------------------------------------------------------------------------------------------
// into_detached: adds no EOF if present, exactly one otherwise; adds a line only if there is none

#[kani::proof]
#[kani::unwind(9)]
fn buf_into_detached() {
    // `source.chars().count()` over symbolic bytes does not finish (20 min); the text is a fixed
    // sample mixing 1-, 2- and 4-byte characters, the buffer state is symbolic.
    let src = "a\u{e9}\u{1f525}";
    let mut wb = WorkTokenizedBuffer::verif_new(src.len(), 8);
    let with_line: bool = kani::any();
    let with_eof: bool = kani::any();
    if with_line {
        wb.add_line(ByteOffset::new(0), CharOffset::new(0));
    }
    if with_eof {
        kani::assume(with_line);
        wb.add_token(TokenChannel::DEFAULT, TokenType::EOF, ByteOffset::new(src.len() as u32), CharOffset::new(3), LineIdx::new(0), Payload::None);
    }
    let tb = wb.into_detached(src);
    assert!(tb.line_count() == 1, "C04: into_detached guarantees a first line");
    assert!(tb.token_count() == 1, "C02: exactly one EOF");
    let t = TokenIdx::new(0);
    assert!(tb.get_token_type(t) == Ok(TokenType::EOF), "C02: EOF is last");
    assert!(tb.get_token_start_byte_offset(t).unwrap().get() as usize == src.len(), "C02: EOF at end of text");
    assert!(tb.get_token_start(t).unwrap().get() == 3, "C03: EOF char offset is the code-point count");
    kani::cover!(with_eof);
    kani::cover!(!with_line);
    std::mem::forget(tb);
}

// ---------------------------------------------------------------------------------------------
// rollback restores exactly the checkpointed prefix (C02/C04/C07)

#[kani::proof]
#[kani::unwind(10)]
fn buf_checkpoint_rollback() {
    let mut b = any_work_buffer_mirrored::<2, 2, 2>();
    let n_t = b.token_infos.len();
    let n_l = b.line_infos.len();
    let n_s = b.string_literals_buffer.len();
    let t0 = if n_t > 0 { Some(b.token_infos[0]) } else { None };
    let cp = b.checkpoint();
    // speculative additions
    let bo = b.token_infos.last().map_or(0, |t| t.byte_offset.get());
    let lb = b.line_infos[n_l - 1].byte_offset.get();
    let nb: u32 = kani::any();
    kani::assume(nb >= bo && nb >= lb && nb <= 1000);
    if kani::any() {
        b.add_line(ByteOffset::new(nb), CharOffset::new(0));
    }
    if kani::any() {
        b.add_token(TokenChannel::DEFAULT, TokenType::MacroString, ByteOffset::new(nb), CharOffset::new(0), LineIdx::new(n_l as u32 - 1), Payload::None);
    }
    if kani::any() {
        b.add_string_literal("ab");
    }
    b.rollback(cp);
    assert!(b.token_infos.len() == n_t && b.line_infos.len() == n_l && b.string_literals_buffer.len() == n_s, "C02/C04/C07: rollback restores token, line and literal counts");
    if let Some(t) = t0 {
        assert!(tok_same(&b.token_infos[0], &t), "C02: rollback keeps earlier tokens");
    }
    std::mem::forget(b);
}

#[kani::proof]
#[kani::unwind(5)]
fn twin_buf_bulk_vs_accessors() {
    let buf = any_detached::<2, 2>();
    let v = buf.into_resolved_token_vec();
    kani::assume(v.len() == 2);
    assert!(false, "TWIN: reachable");
}
