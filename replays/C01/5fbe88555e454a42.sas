%goto %; %goto fin; %fin: %put done; %lbl: %m() %a: %b; x %lbl
/*c*/: %put; %if a %then %lbl: %put x; %else /*c*/%lbl :